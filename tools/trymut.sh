#!/bin/bash
# usage: trymut.sh <patchfile|-e sedexpr file> -- <command...>
# Applies a mutation to /repo, runs the command, reverts. For development only.
set -u
cd /repo
if [ "$1" = "-e" ]; then
  sed -i "$2" "$3"; shift 3
else
  git apply "$1" || { echo "patch does not apply"; exit 3; }; shift
fi
[ "$1" = "--" ] && shift
git diff --stat | tail -1
"$@"; rc=$?
git -C /repo checkout -- . 
echo "exit=$rc"
