#!/usr/bin/env python3
"""Independent confirmation of the seeded changes produced by the sub-agents, in a scratch worktree:
   demo passes on the unchanged tree, fails with the change, and the repository's suite passes with the change.
   Results -> /tmp/mut2/verify.json ; confirmed ones are copied to /verif/seeded/<prop>-m<n>/ ."""
import json, os, re, shutil, subprocess, sys
# usage: verify_round.py <round dir, e.g. /tmp/mut3> [Cxx ...]   (results -> <round dir>/verify.json)
ROUND = sys.argv[1]
WT = "/tmp/mut/V"
OUT = ROUND + "/out"
RES = ROUND + "/verify.json"
ENV = dict(os.environ, CARGO_TARGET_DIR=WT + "/target", CARGO_NET_OFFLINE="true")
# demos that are unit-test modules to append to a source file: {"Cxx-mN": [file, [cargo test args], {env}]}
APPEND = {}
if os.path.exists(ROUND + "/append.json"):
    for k, v in json.load(open(ROUND + "/append.json")).items():
        p, n = k.split("-m")
        env = dict(v[2])
        if "RUSTFLAGS" in env:
            env["CARGO_TARGET_DIR"] = WT + "/target/loom"
        APPEND[(p, int(n))] = (v[0], v[1], env)
def sh(cmd, env=None, timeout=1800):
    try:
        r = subprocess.run(cmd, cwd=WT, env=env or ENV, stdout=subprocess.PIPE, stderr=subprocess.STDOUT, text=True, timeout=timeout)
        return r.returncode, r.stdout
    except subprocess.TimeoutExpired as e:
        return 124, (e.stdout or "") + "\nTIMEOUT"

def reset():
    sh(["git", "checkout", "--", "."]); sh(["git", "clean", "-fdq", "nexosim/tests", "nexosim/src"])

def place_demo(prop, n):
    src = "%s/%s/demo%d.rs" % (OUT, prop, n)
    if not os.path.exists(src):
        src = "%s/%s/bonus_demo%d.rs" % (OUT, prop, n)
    if (prop, n) in APPEND:
        target, args, extra = APPEND[(prop, n)]
        with open(os.path.join(WT, target), "a") as f:
            f.write("\n" + open(src).read())
        release = ["--release"] if "RUSTFLAGS" in extra else []
        return ["cargo", "test", "-p", "nexosim", "--offline"] + release + args, dict(ENV, **extra)
    shutil.copy(src, os.path.join(WT, "nexosim/tests/demo_mutant%d.rs" % n))
    head = open(src).read(1500)
    cmd = ["cargo", "test", "-p", "nexosim", "--offline", "--test", "demo_mutant%d" % n]
    if "--test-threads 1" in head:
        cmd += ["--", "--test-threads", "1"]
    return cmd, ENV

def suite():
    cmd = ["cargo", "nextest", "run", "--workspace", "--no-fail-fast", "--tool-config-file", "pb:/w/lib/nextest.toml", "--profile", "pb", "--test-threads", "8", "--offline"]
    rc, out = sh(cmd)
    failed = sorted(set(re.findall(r"^\s+(?:FAIL|TIMEOUT|SIGABRT|SIGSEGV)\s+\[[^\]]*\]\s+(?:\(\s*\d+/\d+\)\s+)?(\S+\s+\S+)", out, re.M)))
    m = re.search(r"(\d+) tests run: (\d+) passed", out)
    still = []
    for t in failed:
        name = t.split()[-1]
        ok = False
        for _ in range(8):
            rc2, _o = sh(["cargo", "nextest", "run", "--workspace", "--offline", "--test-threads", "1", "-E", "test(=%s)" % name])
            if rc2 == 0:
                ok = True
                break
        if not ok:
            still.append(t)
    return {"summary": m.group(0) if m else out[-300:], "first_pass_failures": failed, "failures_after_serial_rerun": still}

def main():
    todo = sys.argv[2:] or ["C%02d" % i for i in range(1, 21)]
    res = json.load(open(RES)) if os.path.exists(RES) else {}
    for prop in todo:
        for n in (1, 2, 3):
            key = "%s-m%d" % (prop, n)
            patch = "%s/%s/mutant%d.diff" % (OUT, prop, n)
            if n == 3 and os.path.exists("%s/%s/bonus_mutant3.diff" % (OUT, prop)):
                patch = "%s/%s/bonus_mutant3.diff" % (OUT, prop)
            if (key in res and res[key].get("confirmed")) or not os.path.exists(patch):
                continue
            reset()
            cmd, env = place_demo(prop, n)
            rc_clean, out_clean = sh(cmd, env)
            rc_apply, _ = sh(["git", "apply", patch])
            rc_mut, out_mut = sh(cmd, env)
            reset()
            sh(["git", "apply", patch])
            st = suite()
            reset()
            r = {"demo_on_unchanged_tree_passes": rc_clean == 0, "patch_applies": rc_apply == 0, "demo_with_change_fails": rc_mut not in (0, 124) or (rc_mut == 124),
                 "demo_with_change_rc": rc_mut, "suite_with_change": st, "demo_cmd": " ".join(cmd),
                 "demo_clean_tail": out_clean[-400:], "demo_mut_tail": out_mut[-600:]}
            r["confirmed"] = bool(r["demo_on_unchanged_tree_passes"] and r["patch_applies"] and r["demo_with_change_fails"] and not st["failures_after_serial_rerun"])
            res[key] = r
            json.dump(res, open(RES, "w"), indent=1)
            print(key, "confirmed" if r["confirmed"] else "NOT CONFIRMED", st["summary"], st["failures_after_serial_rerun"], flush=True)

main()
