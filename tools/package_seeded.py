#!/usr/bin/env python3
"""Copies the independently confirmed seeded changes from the sub-agents' output directories into
/verif/seeded/<id>/ (patch.diff, demo files, meta.json) and writes /verif/seeded/README.md."""
import json, os, shutil, glob

OUT = "/tmp/mut/out"
DST = "/verif/seeded"
VER = json.load(open("/tmp/mut/verify.json"))

# (what the change is, what it needs in order to manifest, checks that report it)
INFO = {
 "C01-m1": ("schedule_event_from validates the deadline before taking the scheduler-queue lock", "a second thread scheduling exactly between the time read and the insert while step()/step_until() runs", ["C08"]),
 "C01-m2": ("peek_next_key checks the time bound only against the queue head before discarding cancelled actions", "step_until(t) with a cancelled keyed action <= t at the head and a live action > t behind it", ["C01"]),
 "C02-m1": ("BroadcastFuture counts a woken but still pending sub-send as completed", "output with >= 2 recipients, one mailbox full, a third party takes the freed slot before the re-poll", ["C02", "C03"]),
 "C02-m2": ("BroadcastFuture completion decided by 'all output slots filled' with slots emptied only on cancellation", "a second broadcast on the same multi-recipient port into a full mailbox that is freed later", ["C02", "C03"]),
 "C03-m1": ("SeqFuture advances its index before polling", ">= 2 same-time same-origin actions exceeding the free mailbox capacity", ["C03", "C07", "C10"]),
 "C03-m2": ("Output broadcast counts a pending sender as completed (same site as C02-m1, other edit)", "multi-recipient output, full recipient mailbox, competing producer wins the freed slot", ["C03", "C02"]),
 "C04-m1": ("Receiver::recv notifies a blocked sender only if the queue was full at the pop", ">= 2 senders blocked on one mailbox of capacity >= 2", ["C04", "C03", "C12"]),
 "C04-m2": ("BroadcastFuture::new no longer clears the reusable output slots", "multi-recipient output, an earlier broadcast, a later broadcast hitting a full mailbox", ["C04", "C03"]),
 "C05-m1": ("Runnable::run clears the whole wake count with fetch_and before re-polling", "a wake during a poll, then a second wake from another thread during the re-poll", ["C05"]),
 "C05-m2": ("Task::wake tests WAKE_INC instead of WAKE_MASK", "three wake-ups of one task between two count resets", ["C05"]),
 "C06-m1": ("Sender::send counts the message before the push is attempted", "more than `capacity` sends to an orphan mailbox in one step", ["C06"]),
 "C06-m2": ("run() subtracts bench mailbox contents and reports MessageLoss for any remainder", "a deadlock and an orphan leak in the same step", ["C06"]),
 "C07-m1": ("periodic actions re-keyed in place keep their original insertion epoch", "a periodic event plus a later same-origin event landing on a future occurrence", ["C07"]),
 "C07-m2": ("SeqFuture::poll rewritten with retain_mut (a join instead of a sequence)", "same-origin batch larger than the mailbox; a slot freed between two sub-polls (multi-threaded)", ["C07"]),
 "C08-m1": ("deadline check of schedule_event_from moved before the queue lock", "a foreign thread scheduling at exactly that point during step()", ["C08"]),
 "C08-m2": ("schedule_from reads a new ActionInner::period() that KeyedPeriodicAction does not override", "Scheduler::schedule with EventSource::keyed_periodic_event(Duration::ZERO)", ["C08"]),
 "C09-m1": ("same-key batch drained with a raw peek: no cancellation check from the 3rd action on", "a cancelled keyed EventSource action with >= 2 live same-time actions ahead of it", ["C09"]),
 "C09-m2": ("keyed periodic model-input events test the key when sent, not when processed", "a keyed periodic event cancelled by an earlier same-time event of the same model", ["C09"]),
 "C10-m1": ("SeqFuture advances its index before polling (same as C03-m1)", ">= 2 coinciding same-origin actions and a full target mailbox", ["C10", "C03", "C07"]),
 "C10-m2": ("step ends when the next key differs in origin although the time is the same", "actions of >= 2 origins at one time stamp; step_until target on that time stamp", ["C10", "C01", "C18"]),
 "C11-m1": ("ModelId computed before build(): a parent gets the index of its first sub-model's name", "Panic / NoRecipient raised by a model that owns sub-models", ["C11", "C16"]),
 "C11-m2": ("OutOfSync path no longer sets is_terminated", "a clock tolerance, a lag above it, and one more API call", ["C11", "C18"]),
 "C12-m1": ("Receiver::recv notifies a sender only if the queue was full (same as C04-m1)", "capacity >= 2 and >= 2 senders parked at once", ["C12", "C04", "C03"]),
 "C12-m2": ("Queue::pop reports Closed whenever the queue is closed, even with a push in flight", "a producer preempted between reserving its slot and publishing it, with a close in between", ["C12"]),
 "C13-m1": ("wake_by_val treats 'POLLING set, wake count 0' as no Runnable and frees the task", "last waker consumed by value after the cancel token was dropped, no promise", ["C13"]),
 "C13-m2": ("`let state = fetch_sub(..)` shadows the loop variable in Runnable::run", "a cancel during a poll that returns Pending (other thread or from inside poll)", ["C13"]),
 "C14-m1": ("QueryBroadcaster yields every non-empty output slot instead of the first output_count", "a reply iterator not fully drained, then a query accepted by fewer repliers", ["C14"]),
 "C14-m2": ("CachedRwLock::write bumps the epoch before taking the lock", "connect() on one clone exactly while another clone re-synchronises inside send()", ["C14"]),
 "C15-m1": ("try_read no longer rejects an odd sequence count", "a read entirely inside one write", ["C15"]),
 "C15-m2": ("final sequence store of SyncCell::write relaxed to Ordering::Relaxed", "only under the C11 memory model / weakly ordered hardware", ["C15"]),
 "C16-m1": ("ModelId computed before build() (same as C11-m1)", "hierarchy depth >= 1 and an error raised by a model that has sub-models", ["C16", "C11"]),
 "C16-m2": ("Receiver::recv notifies a sender only if the queue was full (same as C04-m1)", "two models whose init floods a third one beyond its capacity", ["C16", "C04"]),
 "C17-m1": ("EventBufferWriter::write makes room before checking whether the buffer is open", "a write to a closed buffer that is exactly full", ["C17"]),
 "C17-m2": ("EventSlot::next returns None when the slot is closed", "write, close, read with a value still pending", ["C17"]),
 "C18-m1": ("same-time events split by origin into separate steps (same as C10-m2)", "two events at one time stamp from different origins", ["C18", "C01", "C10"]),
 "C18-m2": ("clock tolerance checked after the executor ran", "a lag above the tolerance and an oracle looking at model-side effects", ["C18"]),
 "C19-m1": ("activate_all_workers only unparks workers whose active bit was clear", "multi-threaded executor dropped (after a timeout or panic) while a handler is still running on a worker", ["C19"]),
 "C19-m2": ("BroadcastFuture::drop returns early unless the future completed", "a multi-recipient broadcast still pending (deadlock) when the simulation is dropped", ["C19"]),
 "C20-m1": ("IndexedPriorityQueue::extract rewinds next_epoch when the newest entry is extracted", "k = insert; extract(k); insert; extract(k)", ["C20"]),
 "C20-m2": ("PriorityQueue::insert restarts the epoch counter on an empty heap after reading it", ">= 2 inserts, a full drain, then >= 2 equal-key inserts", ["C20", "C07"]),
}

rows = []
for key in sorted(INFO):
    prop, n = key.split("-m")
    v = VER.get(key)
    if not v or not v.get("confirmed"):
        print("skip (not confirmed):", key)
        continue
    d = os.path.join(DST, key)
    os.makedirs(d, exist_ok=True)
    shutil.copy(os.path.join(OUT, prop, "mutant%s.diff" % n), os.path.join(d, "patch.diff"))
    for f in glob.glob(os.path.join(OUT, prop, "demo%s*.rs" % n)):
        shutil.copy(f, os.path.join(d, os.path.basename(f)))
    what, needs, checks = INFO[key]
    meta = {
        "property": prop,
        "what": what,
        "needs_to_manifest": needs,
        "origin": "independent sub-agent given only the property text and a scratch worktree",
        "confirmed_in_scratch_worktree": {
            "demo_cmd": v["demo_cmd"],
            "demo_passes_on_unchanged_tree": v["demo_on_unchanged_tree_passes"],
            "demo_fails_with_change": v["demo_with_change_fails"],
            "suite_with_change": v["suite_with_change"]["summary"],
            "suite_failures_after_serial_rerun": v["suite_with_change"]["failures_after_serial_rerun"],
            "note": "wall-clock tests of the suite are flaky on a loaded machine; first-pass failures were re-run serially",
        },
        "reported_by_quick_checks": checks,
        "how_checked": "tools/mutrun.py <patch> <checks>: git -C /repo apply, ./check <id>, git -C /repo checkout -- .",
    }
    json.dump(meta, open(os.path.join(d, "meta.json"), "w"), indent=1)
    rows.append((key, prop, what, needs, ", ".join(checks)))

with open(os.path.join(DST, "README.md"), "w") as f:
    f.write("# Seeded changes and the checks that report them\n\n"
            "Each directory holds `patch.diff` (apply with `git -C /repo apply`, undo with `git -C /repo checkout -- .`), the\n"
            "demonstration written with the change and `meta.json`. `revert-D*` are the reverse patches of the five `fix:` commits.\n"
            "`tools/mutrun.py <patch> <PROP>...` applies a change, runs the quick checks and reverts.\n\n"
            "| id | property | change | needs | reported by (quick) |\n|---|---|---|---|---|\n")
    for r in rows:
        f.write("| %s | %s | %s | %s | %s |\n" % r)
    f.write("| revert-D1-C06-submodel-observer | C06 | reverse of fix c54922d | a stalled sub-model | C06, C16 |\n"
            "| revert-D2-C08-zero-period | C08 | reverse of fix ac58999 | Scheduler::schedule with a zero-period source action | C08 (hang watchdog) |\n"
            "| revert-D3-C11-terminated | C11 | reverse of fix bd7a63b | step()/step_until() after a fatal error | C11 |\n"
            "| revert-D4-C06-msgcount-fold | C06 | reverse of fix 4c18616 | worker preempted between deactivation and count fold (2 preemptions) | C06 (engine M) |\n"
            "| revert-D5-C08-step_until-race | C08 | reverse of fix c9690c2 | foreign schedule_event between the last queue check and the time write of step_until (1 preemption) | C08 (engine M) |\n")
print("packaged", len(rows))
