#!/usr/bin/env python3
"""Generates /verif/MANIFEST.json from the table below (single source of truth)."""
import json
import os

ROOT = os.path.dirname(os.path.dirname(os.path.abspath(__file__)))

BASELINE_OFF = ("cd /repo && cargo nextest run --workspace --no-fail-fast --tool-config-file pb:/w/lib/nextest.toml "
                "--profile pb --test-threads 8 --offline")

# id -> (engine label, category, technique, text, note, design_ref)
CHECKS = {
    "C01": ("simx", "exploration",
            "stateless DFS over all task pick orders x bounded-exhaustive driver command sequences, reference scheduler oracle",
            "Every driver command sequence up to the stated depth over a 17-command alphabet (schedule*, cancel, step, "
            "step_until, process_*) and three concurrent benches are run on the real single-threaded executor under every "
            "task pick order; a reference scheduler (pending occurrences, cancellation, expected time of every sub-step) "
            "is checked at every log event.",
            "Task-granularity interleavings (yield before every shared operation) stand for thread interleavings of "
            "linearizable primitives; the primitives themselves are checked under C12/C13/C15. Time values are small "
            "offsets around a second boundary.",
            "5/C01"),
}

NOT_YET = {}


def main():
    props = [json.loads(l) for l in open(os.path.join(ROOT, "properties.jsonl"))]
    checks = []
    na = []
    for p in props:
        pid = p["id"]
        if pid in CHECKS:
            eng, cat, tech, text, note, ref = CHECKS[pid]
            checks.append({
                "property_id": pid,
                "quick_cmd": "./check %s --tier quick" % pid,
                "thorough_cmd": "./check %s --tier thorough" % pid,
                "evidence_file": "/verif/evidence/%s.json" % pid,
                "replay_cmd_template": "./check %s --replay {path}" % pid,
                "engine": eng,
                "level_claimed": {"category": cat, "text": text, "design_ref": "DESIGN.md section " + ref},
                "level_note": note,
                "technique": tech,
            })
        else:
            na.append({"property_id": pid,
                       "reason": NOT_YET.get(pid, "check under construction in this session: not claimed until its "
                                                   "engine is committed (see DESIGN.md section 5 for the planned check)")})
    man = {
        "version": 1,
        "setup_cmd": "./setup.sh",
        "hooks": {
            "guard": "cargo feature verif-hooks (crate nexosim)",
            "enable": "engine S depends on /repo/nexosim with features=[\"verif-hooks\"]; the loom/shuttle mirrors enable the same feature",
            "baseline_off_cmd": BASELINE_OFF,
            "source_commits": ["fadbd29"],
            "add_only": True,
        },
        "engines": [
            {"name": "simx", "path": "engines/simx", "serves_properties": sorted(k for k, v in CHECKS.items() if "simx" in v[0]),
             "kind_free_text": "stateless exhaustive exploration of the real crate on its single-threaded executor (pick hook), bounded-exhaustive driver sequences, reference-model oracles"},
        ],
        "checks": checks,
        "not_applicable": na,
        "notes": "exit 0 held / exit 1 + VIOLATION line / exit 2 machinery failure. Known findings: known_findings.json.",
    }
    with open(os.path.join(ROOT, "MANIFEST.json"), "w") as fh:
        json.dump(man, fh, indent=1)
    print("checks:", len(checks), "not_applicable:", len(na))


if __name__ == "__main__":
    main()
