#!/usr/bin/env python3
"""Generates /verif/MANIFEST.json from the table below (single source of truth)."""
import json
import os

ROOT = os.path.dirname(os.path.dirname(os.path.abspath(__file__)))

BASELINE_OFF = ("cd /repo && cargo nextest run --workspace --no-fail-fast --tool-config-file pb:/w/lib/nextest.toml "
                "--profile pb --test-threads 8 --offline")

# id -> (engine label, category, technique, text, note, design_ref)
S_NOTE = ("Task-granularity interleavings on the real single-threaded executor (harness yield before every shared "
          "operation, every pick order) stand for thread interleavings of linearizable primitives; the primitives "
          "themselves are decided under C12/C13/C15 and the multi-threaded executor protocol under C04/C06 (engine M). "
          "Scenario sizes are small (2-5 models, capacities 1-3, time offsets of a few ns around a second boundary).")
S_TECH = "stateless DFS over all task pick orders of the real executor x bounded-exhaustive scenario enumeration, reference-model oracle on the event log (+ preemption-bounded DFS of the real multi-threaded executor under shuttle / loom DPOR where listed in the engine field)"

CHECKS = {
    "C01": ("simx+shutx", "exploration", S_TECH,
            "Every driver command sequence up to the stated depth over a 17-command alphabet (schedule*, cancel, step, "
            "step_until, process_*) and concurrent benches are run on the real single-threaded executor under every "
            "task pick order; a reference scheduler (pending occurrences, cancellation, expected time of every sub-step, "
            "time seen by every handler) is checked at every log event.", S_NOTE, "5/C01"),
    "C02": ("simx+shutx", "exploration", S_TECH,
            "Triangle, relay chains, query+send, broadcast+relay and fan benches with capacities 1-2 (senders do block) "
            "under every pick order; each message carries the set of sends completed in the causal past of its sending "
            "(knowledge sets propagated along program order, deliveries and replies) and every recipient must have "
            "processed all of them that were addressed to it.", S_NOTE, "5/C02"),
    "C03": ("simx+shutx", "exploration", S_TECH,
            "Plain/map/filter_map connections to models and sinks from outputs, requestors, event/query sources, "
            "scheduler batches and process_*; volumes up to 2*cap+1; contended recipients; under every pick order the "
            "multiset of (message, recipient) processed must equal the multiset accepted by the connections.", S_NOTE, "5/C03"),
    "C04": ("simx+shutx+loomx+seqx", "exploration", S_TECH,
            "Content-deterministic benches under every pick order: at every Ok return no handler is half-way, no send "
            "pending, every sent message processed, and the per-command multiset of handler invocations, results and "
            "sink contents is identical across all schedules; a call that does not return is a violation (watchdog).",
            S_NOTE + " The multi-threaded executor's own protocol is explored by engine M when present in the evidence.", "5/C04"),
    "C05": ("simx+shutx+loomx", "exploration", S_TECH,
            "Benches with blocked senders, queries and concurrent wakers of one model under every pick order: init and "
            "handlers of one model never nest or overlap and nothing is handled before init completed.", S_NOTE, "5/C05"),
    "C06": ("simx+shutx", "exploration", S_TECH,
            "Query loops, saturating loops, orphan mailboxes, stalling sub-models (depth 1-2, unnamed), mixtures and "
            "healthy benches under every pick order; exact per-mailbox accounting from the log (deliveries started minus "
            "handlers started, capped by capacity) decides Ok / Deadlock[exact list] / MessageLoss(n).", S_NOTE, "5/C06"),
    "C07": ("simx+seqx+shutx", "exploration", S_TECH,
            "All sequences (depth 4/5) of same-deadline scheduling requests of mixed kinds, origins and targets, model-"
            "origin batches and batches larger than the mailbox, under every pick order; processing order per (origin, "
            "target, time) must follow scheduling order (re-armed periodic occurrences rank at their predecessor's step).",
            S_NOTE, "5/C07"),
    "C08": ("simx+shutx", "exploration", S_TECH,
            "Every request kind (Scheduler::schedule*, Context::schedule*, EventSource actions) x deadline class (past, "
            "now, future; absolute/relative) x period (0, 1, 2) at three simulation times: accepted iff deadline > now "
            "and period != 0, rejected requests never fire, accepted ones fire exactly at their deadlines, stepping "
            "calls return (watchdog).", S_NOTE + " The race with foreign scheduling threads is decided by engine M when present.", "5/C08"),
    "C09": ("simx", "exploration", S_TECH,
            "All sequences (depth 3/4) over keyed one-shot/periodic requests (model inputs and source actions), cancel, "
            "cancel-through-clone, auto-key conversion/drop, handler-side cancellation by an earlier same-time event, "
            "step/step_until, under every pick order.", S_NOTE, "5/C09"),
    "C10": ("simx", "exploration", S_TECH,
            "Periodic series t0 in 1..3, p in {1,2,3 ns, 1 s}, up to three coinciding series from different origins, "
            "every partition (depth 3/5) of the horizon into step/step_until(1..3)/cancel: each occurrence exactly once "
            "at t0+k*p until cancelled.", S_NOTE, "5/C10"),
    "C11": ("simx", "fault_enumeration", "exhaustive fault-kind x position x follow-up-sequence enumeration on the real crate (ST under every pick order, MT with real threads)",
            "Each fault kind (panic str/String/custom payload in a model, sub-model, query, init, timed step; "
            "NoRecipient from model/sub-model/source; MessageLoss; Deadlock; OutOfSync; Timeout; non-fatal BadQuery and "
            "InvalidDeadline) is injected after three different prefixes and followed by every sequence of up to 2 "
            "(thorough 3) further calls; classification, attribution, Terminated afterwards, frozen time and no model "
            "code are checked on the single-threaded executor (all pick orders) and on the 2-worker executor.",
            "On the multi-threaded executor the thread schedule is the OS's; the verdicts asserted do not depend on it.", "5/C11"),
    "C12": ("seqx+shutx+loomx", "model_checking", "bounded-exhaustive operation sequences on the real queue vs VecDeque reference (explicit enumeration, every trace replayed on the implementation)",
            "Every sequence of push/pop/close up to depth 12 (thorough 15) on the real channel/queue.rs for capacities 1-5 "
            "(powers of two and not; index wrap-around and the len() carry are reached several times) against a VecDeque: "
            "return values, len() and is_closed() after every operation.",
            "Sequential part only in this fragment; the concurrent parts (memory model, wake-up protocol) are decided by the "
            "loom and shuttle engines when their fragments are present in the evidence.", "5/C12"),
    "C13": ("loomx", "exploration", "loom DPOR over generated handle-operation programs (2 threads + executor thread) on the real task code, plus exhaustive sequential programs",
            "Sequential: every sequence to depth 3 (thorough 4) of {run, drop-runnable, wake_by_ref, wake, clone+wake, drop-waker, cancel, "
            "drop-token, promise-poll, drop-promise} x {spawn, spawn_and_forget} x three futures. Concurrent: 14 hand-picked programs "
            "(quick) and every pair of operation sequences (A: up to 2 ops on waker+cancel token, B: up to 1 op on waker+promise) "
            "(thorough) run against an executor thread under loom with preemption bound 2-3. Oracle: never two Runnables alive, polls "
            "never overlap (flag + loom cell), no poll after completion or after a cancel that happened-before, every wake issued "
            "while pending is followed by a poll, future and output each released exactly once.",
            "Memory of the task allocation itself is observed through drop counters (future, output), not through an allocator hook; "
            "loom explores the C11 model within the stated preemption bound.", "5/C13"),
    "C14": ("simx+loomx+shutx", "exploration", S_TECH,
            "Requestor and QuerySource with 0..3 (thorough 4) repliers over every vector of connection modes (plain, map, "
            "two filters) and both request parities under every pick order (every completion order): reply vector equals "
            "the expected one in connection order and is returned only after all repliers processed the request; port "
            "clones share connections added through either clone.", S_NOTE, "5/C14"),
    "C15": ("loomx+shutx", "exploration", "loom DPOR (interleavings and C11 memory-model outcomes) on the real seqlock cell and time adapter",
            "Real SyncCell<TearableAtomicTime> (atomics of monotonic_time.rs redirected to loom): one writer performing 1-3 successive "
            "writes of times whose seconds and nanoseconds are pairwise distinct, 1-2 readers doing 1-3 reads through try_read and "
            "through the spinning read (spin loop made visible to loom by the verif-hooks spin hint), plus a release/acquire "
            "publication variant; preemption bound 1-3 quick, 3-5 thorough. Oracle: every value read was written (no mix of fields), "
            "per-reader monotone, not older than a published write.",
            "Readers go through SyncCellReader::read/try_read, the exact path of Scheduler::time()/Context::time(); the writer is SyncCell::write as used by Simulation.", "5/C15"),
    "C16": ("simx+shutx", "exploration", S_TECH,
            "Hierarchies of depth 0..3 whose init scripts send events and queries to neighbours through capacity-1/2 "
            "mailboxes, under every pick order: one init per model, inside SimInit::init, before its first handler; early "
            "messages processed exactly once; names parent.child in contexts and in Panic/NoRecipient/Deadlock reports.",
            S_NOTE, "5/C16"),
    "C17": ("seqx+simx+shutx", "model_checking", "bounded-exhaustive write/read/open/close sequences on the real sinks vs VecDeque/Option reference, plus stateless DFS over pick orders for model-to-sink order",
            "EventBuffer (capacities 1-3, initially open or closed, two writer handles) and EventSlot: every sequence to "
            "depth 7/8 (thorough 9/10) of write/next/drain/open/close against VecDeque-with-eviction / Option. Plus: a model "
            "emitting 1..5 events through one output to two buffers, a slot and a second model, under every pick order: "
            "per-sender order and content of the sinks.", S_NOTE, "5/C17"),
    "C20": ("seqx+simx", "model_checking", "bounded-exhaustive operation sequences on the real priority queues vs sorted-vector reference (explicit enumeration, every trace replayed on the implementation)",
            "PriorityQueue: every sequence of insert(k in 0..2)/pull/peek to depth 9 (thorough 11). IndexedPriorityQueue: "
            "every sequence to depth 8 (thorough 9) of insert/pull/peek+peek_key/extract(any key issued so far, stale ones "
            "included)/extract(key forged from the slot of one issued key and the epoch of another)/extract(never-issued "
            "key); slot recycling is forced by the small alphabet; return values and len() compared after every step.",
            "grpc/key_registry.rs is a thin wrapper (feature grpc, not built by default) and is covered through the queue it wraps.", "5/C20"),
    "C18": ("simx+shutx", "exploration", S_TECH,
            "All driver sequences (depth 4/5) of scheduling and stepping commands under 17 scripted clocks (lag above / "
            "equal / below tolerance, no tolerance, at the first four synchronisations): one synchronize per new time, "
            "after all earlier computations, arguments never decrease, OutOfSync before any model code of that time.",
            S_NOTE, "5/C18"),
    "C19": ("simx+shutx", "fault_enumeration", "drop-point enumeration x all task pick orders on the real crate, drop-tracking tokens",
            "For each bench (idle, blocked senders, pending query, queued actions of every kind, after a panic, with "
            "orphans) the simulation is dropped at every position of the driver sequence under every pick order; every "
            "model, message, scheduled argument and handler-local value is a tracked token that must be dropped exactly "
            "once; no handler after the drop began; the drop returns (watchdog).", S_NOTE, "5/C19"),
}

# what the other engines add for a property (appended to the level text)
EXTRA = {
    "C01": " Engine M (shuttle mirror, preemption-bounded DFS, bound 1-2/3): a Scheduler clone on a second thread issues each "
           "schedule* variant (plain, keyed, periodic, keyed periodic, source action) exactly while the simulation steps or "
           "runs step_until; every accepted action fires at its deadline, none fires at a time later than its deadline, "
           "observed times never decrease. Further families of engine S: the stepping sequences of C18 under clocks lagging beyond the tolerance, judged on chronology (nothing runs late when the caller steps on after the error); the driver sequences and the deadline-boundary requests with simulations starting 7 s before the epoch and 2 ns before it (crossing it); the deadline-boundary requests with non-async and context-free input methods. Round-4 additions: deadlines and periods of the order of 10^18 ns, start times whose seconds cross 2^31 / 2^32 / 2^33 or are about 2^40; 200 and 700 models arming an event on themselves from init on the real 2- and 4-worker executor.",
    "C02": " Engine M: the triangle and relay benches on the real multi-threaded executor (2 workers) under every schedule "
           "within the preemption bound, same oracle.",
    "C03": " Engine M: fan-out, contended-recipient and source benches on the real multi-threaded executor, same oracle. Further families of engine S: every ordered pair (and a third of the triples, all in thorough) of the nine connection kinds on one port, made directly, through a clone of the port before init, or through a clone kept by the driver after the model has emitted (late connections); recipients with non-async and context-free input methods. Round-4 additions: periodic source actions created before the source's connections exist (each occurrence goes to what is connected when it is processed); sinks of capacity 1-3 filled to exactly their capacity and beyond.",
    "C04": " Engine M: six of the same invariant-outcome benches on the real 2/3-worker executor under every schedule within "
           "the preemption bound: the outcome must equal the single-threaded reference; executor-only scenarios (tasks "
           "waking each other across workers, a second round after quiescence) must run every task before run() returns; "
           "600 wake-ups issued by one poll overflow the local queue into the injector (default schedule). Engine L: the "
           "worker idle protocol (push to injector / deactivate / last-searcher re-check) on the real PoolManager and "
           "Injector under loom: never a task left while every worker is idle. Engine Q: every push/pop_bucket/drain "
           "sequence on the real Injector against a VecDeque-of-buckets reference. Engine S on real threads: healthy fan benches (200-model fan-out) with 3, 17, 63 and 64 worker threads: every call returns normally and completely (defect D7 was found here with 64 workers, the documented maximum). Round-4 addition: same-time batches larger than the target mailbox.",
    "C05": " Engine M: blocked-sender and concurrent-waker benches on the real 2-worker executor (overlap flag per model). "
           "Engine L: the task state machine under loom never polls one future from two threads at once.",
    "C06": " Engine M: healthy, deadlocking and message-losing benches on the real 2-worker executor: the per-worker message "
           "counters must be folded before the executor decides quiescence (defect D4 was found here). Engine S also runs "
           "history scenarios: a simulation built on a thread on which an earlier simulation panicked or was dropped with "
           "messages in flight. Further scenarios of engine S: every model of a hierarchy root{a{x},b} + plain (and plain + root{a,b{y}}) stalls in turn; a Deadlock report is exact only if every reported model is really blocked inside a handler or its init.",
    "C07": " Engine Q: SeqFuture polled over every readiness pattern of up to 4 futures: strictly in order, each exactly "
           "until ready, never polled after completion. Engine M: same-deadline batches on the 2-worker executor. Round-4 addition: absolute and relative deadlines for one instant, at ordinary and extreme start times (-1 s, 2^31, 2^33, 2^40).",
    "C08": " Engine M: a foreign thread scheduling at every deadline class exactly while step/step_until commits the new "
           "time (defect D5 was found here at preemption bound 1). Further families of engine S: every request kind x deadline class made from Model::init() (the time seen there is the start time), also with a start time crossing the epoch; non-async input methods; 700 and 1500 events accepted for one instant on the real 2- and 4-worker executor (the other workers kept busy) all fire.",
    "C09": " All families are run a second time with non-async input methods with and without context (scripts that need no await), quick: one alternative form per scenario, thorough: all three.",
    "C10": " Also: the same partitions with simulations starting 7 s before the epoch and 2 ns before it; periodic source actions whose source has 2-4 connections to one model with mailbox capacity 1-2; non-async and context-free input methods. Round-4 additions: far-future deadlines / periods, start times crossing 2^31 and 2^33.",
    "C11": " Also: the fault sequences in a simulation built on a thread on which an earlier simulation was terminated by a panic / NoRecipient, including a simulation without any model. On the multi-threaded executor, handlers of the failed step still completing on other workers when the failing call returns are not counted as further attempts (DESIGN 6.2). Round-4 additions: NoRecipient through a UniRequestor; the fault sequences and init faults on the single-threaded executor with a step timeout configured (helper thread).",
    "C13": " Programs with two executor threads taking the scheduled task from the same slot (successive polls on different threads, ordered only by the task's state word).",
    "C16": " Engine M: four of the init hierarchies on the real 2/3-worker executor under every schedule within the preemption bound (a worker going idle at the wrong moment must not leave init unfinished). Also the naming scenarios on the single-threaded executor with a step timeout configured (helper thread). On the real 2- and 4-worker executor: a hub whose init wakes 700 / 1500 idle models at once while the other workers are kept busy (every init exactly once, every early message processed, no model abandoned).",
    "C20": " Engine S: the same-origin ordering families of C07 (driver origin, model origin with tick handlers scheduling for the next occurrence, absolute and relative deadlines at extreme start times): FIFO among equal (time, origin) keys as the simulation uses the queue. Long deterministic regimes for the indexed queue: fill / drain / refill with stale keys for sizes 1..40 and 2^k-1, 2^k, 2^k+1 up to 4097; churn with many different keys at 70-2100 entries; a sliding window (every pull followed by the insertion of a largest entry) at 5-2051 entries; heaps shaped by array position so that the path of smallest children ends at a chosen node, for sizes around 512, 1024 and 2048.",
    "C12": " Engine L: the real queue under loom (2 producers + consumer, capacities 1-2, close while pushing): no lost, "
           "duplicated or torn message, per-producer FIFO. Engine M: the real Sender/Receiver (async-event + diatomic-waker) "
           "under the preemption-bounded DFS: 1-3 producer threads x 1-3 messages on capacity 1-2 (senders do block), "
           "receiver draining or closing after 2 receptions: accepted = received (exactly once), per-producer FIFO, "
           "every send completes or reports closure, no lost wake-up (a hang is a violation). Round-4 addition (engine M): the receiver is dropped while 2-3 senders are blocked on the full mailbox: every one of them is resumed and fails.",
    "C14": " Engine L: CachedRwLock under loom (reader caches vs concurrent writer). Engine M: TaskSet wake/steal protocol of "
           "the source BroadcastFuture under the preemption-bounded DFS with resizing between uses.",
    "C15": " Engine M: Scheduler::time() read on a foreign thread before and after it schedules, while the simulation runs "
           "step_until: never decreases; times seen by handlers and by the driver never decrease. The values written span the whole range of both fields (seconds before the epoch, beyond 2^31, 2^33, 2^62; nanoseconds at both ends).",
    "C17": " Engine S also: sinks connected in every order with other connections, through port clones and late (after the model has emitted). Engine M: two models on two workers writing to one EventBuffer at and around capacity, reader on the driver "
           "thread: per-writer order kept, length never above capacity, a closed buffer accepts nothing. Round-4 addition (engine Q): the same sequences with a zero-sized and with a large event type.",
    "C18": " Engine S also: an event source whose map / filter_map closures log their evaluation (user code of a periodic source action belongs to its synchronised time step, never to a step that reported a lag), both orders of set_clock / set_clock_tolerance, start time crossing the epoch. Engine M: step_until under a recording clock while a foreign thread schedules at or before the target "
           "(every scheduling entry point): arguments of synchronize strictly increase, no handler observes a time "
           "smaller than an earlier one, the accepted action runs at its deadline. Round-4 additions: the largest lag a clock can report (Duration::MAX) with and without tolerance; 300 and 700 models on the real 2- and 4-worker executor (no init code before the start-time synchronisation, no model code of a step before its synchronisation).",
    "C19": " Engine M: the simulation dropped on the 2-worker executor (blocked senders, pending query, queued actions) "
           "and the bare executor dropped after a timeout / with tasks that wake each other while being dropped: every "
           "token and future dropped exactly once, the drop returns. Further benches of engine S: replies carry tracked tokens - query actions whose reply receiver is dropped or kept unread, queries processed in a step that fails after the replier replied; a handler that builds, runs and drops inner simulations (same executor kind) while other models are idle.",
}

NOT_YET = {}


def main():
    props = [json.loads(l) for l in open(os.path.join(ROOT, "properties.jsonl"))]
    checks = []
    na = []
    for p in props:
        pid = p["id"]
        if pid in CHECKS:
            eng, cat, tech, text, note, ref = CHECKS[pid]
            checks.append({
                "property_id": pid,
                "quick_cmd": "./check %s --tier quick" % pid,
                "thorough_cmd": "./check %s --tier thorough" % pid,
                "evidence_file": "/verif/evidence/%s.json" % pid,
                "replay_cmd_template": "./check %s --replay {path}" % pid,
                "engine": eng,
                "level_claimed": {"category": cat, "text": text + EXTRA.get(pid, ""), "design_ref": "DESIGN.md section " + ref},
                "level_note": note,
                "technique": tech,
            })
        else:
            na.append({"property_id": pid,
                       "reason": NOT_YET.get(pid, "check under construction in this session: not claimed until its "
                                                   "engine is committed (see DESIGN.md section 5 for the planned check)")})
    man = {
        "version": 1,
        "setup_cmd": "./setup.sh",
        "hooks": {
            "guard": "cargo feature verif-hooks (crate nexosim)",
            "enable": "engine S depends on /repo/nexosim with features=[\"verif-hooks\"]; the loom/shuttle mirrors enable the same feature",
            "baseline_off_cmd": BASELINE_OFF,
            "source_commits": ["fadbd29"],
            "fix_commits": ["bd7a63b", "ac58999", "c54922d", "4c18616", "c9690c2", "abbe7ca", "6bd1e08", "d77e332"],
            "add_only": True,
        },
        "engines": [
            {"name": "shutx", "path": "engines/shutx", "serves_properties": ["C01", "C02", "C03", "C04", "C05", "C06", "C07", "C08", "C12", "C14", "C15", "C16", "C17", "C18", "C19"],
             "kind_free_text": "mirror of /repo/nexosim/src compiled against shuttle 0.9.3 (engines/mirror/mirror.py rewrites import lines only); own preemption-bounded DFS scheduler; real MT executor, channel, Simulation"},
            {"name": "loomx", "path": "engines/loomx", "serves_properties": ["C04", "C05", "C12", "C13", "C14", "C15"],
             "kind_free_text": "mirror of /repo/nexosim/src compiled against loom 0.7.2; loom DPOR with preemption bounds on the real queue, task, seqlock cell, cached lock"},
            {"name": "seqx", "path": "engines/seqx", "serves_properties": ["C04", "C07", "C12", "C17", "C20"],
             "kind_free_text": "bounded-exhaustive operation-sequence enumeration on the real data structures (source files bound by #[path]) against reference models"},
            {"name": "simx", "path": "engines/simx", "serves_properties": sorted(k for k, v in CHECKS.items() if "simx" in v[0]),
             "kind_free_text": "stateless exhaustive exploration of the real crate on its single-threaded executor (pick hook), bounded-exhaustive driver sequences, reference-model oracles"},
        ],
        "checks": checks,
        "not_applicable": na,
        "notes": "exit 0 held / exit 1 + VIOLATION line / exit 2 machinery failure. Known findings: known_findings.json.",
    }
    with open(os.path.join(ROOT, "MANIFEST.json"), "w") as fh:
        json.dump(man, fh, indent=1)
    print("checks:", len(checks), "not_applicable:", len(na))


if __name__ == "__main__":
    main()
