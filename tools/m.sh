#!/bin/bash
# regenerate + build the shuttle mirror (dev helper)
python3 /verif/engines/mirror/mirror.py shuttle ${VX_REPO:-/repo} /tmp/vx-mirror-shuttle-0 >/dev/null && cd /tmp/vx-mirror-shuttle-0 && CARGO_TARGET_DIR=/verif/target/shutx cargo build --release 2>&1 | grep -E '^error' -A12 | head -60
