#!/usr/bin/env python3
"""mutrun.py <patch.diff> <PROP> [<PROP>...] [--tier quick]  : apply a seeded change to /repo, run checks, revert."""
import subprocess, sys, os
patch = sys.argv[1]
props = [a for a in sys.argv[2:] if not a.startswith("--")]
tier = "quick"
if "--tier" in sys.argv:
    tier = sys.argv[sys.argv.index("--tier") + 1]
st = subprocess.run(["git", "-C", "/repo", "status", "--porcelain", "--untracked-files=no"], capture_output=True, text=True).stdout.strip()
if st:
    print("REPO NOT CLEAN:", st); sys.exit(3)
r = subprocess.run(["git", "-C", "/repo", "apply", patch])
if r.returncode != 0:
    print("PATCH DOES NOT APPLY", patch); sys.exit(3)
try:
    for p in props:
        r = subprocess.run(["/verif/check", p, "--tier", tier], capture_output=True, text=True)
        first = next((l for l in r.stdout.splitlines() if l.startswith("VIOLATION")), "")
        detail = next((l.strip() for l in r.stderr.splitlines() if l.startswith("    ")), "")
        print("%s %s -> exit %d %s | %s" % (os.path.basename(os.path.dirname(patch)) + "/" + os.path.basename(patch), p, r.returncode, first[:120], detail[:200]))
        if r.returncode == 2:
            print(r.stderr[-1500:])
finally:
    subprocess.run(["git", "-C", "/repo", "checkout", "--", "."])
