#!/usr/bin/env python3
"""mutrun.py <patch.diff> <PROP> [<PROP>...] [--tier quick] [--inplace]

Applies a seeded change, runs the given checks and reverts.
Default: in a scratch worktree of /repo (/tmp/mr/repo, build output /tmp/mr/target) through VX_REPO/VX_TARGET, so
that /repo itself is never modified (background runs that use /repo are not disturbed).
--inplace: apply to /repo itself (git -C /repo apply ... ; git -C /repo checkout -- .), exactly as a grader would."""
import os
import subprocess
import sys

args = [a for a in sys.argv[1:] if not a.startswith("--")]
patch, props = args[0], args[1:]
tier = "quick"
if "--tier" in sys.argv:
    tier = sys.argv[sys.argv.index("--tier") + 1]
    props = [p for p in props if p != tier]
inplace = "--inplace" in sys.argv
env = dict(os.environ)
if inplace:
    wt = "/repo"
else:
    base = os.environ.get("MR_DIR", "/tmp/mr")
    wt = base + "/repo"
    os.makedirs(base, exist_ok=True)
    if not os.path.exists(wt):
        subprocess.run(["git", "-C", "/repo", "worktree", "add", "-q", "--detach", wt, "HEAD"], check=True)
    head = subprocess.run(["git", "-C", "/repo", "rev-parse", "HEAD"], capture_output=True, text=True).stdout.strip()
    subprocess.run(["git", "-C", wt, "checkout", "-q", "--detach", head], check=True)
    env.update(VX_REPO=wt, VX_TARGET=base + "/target")
st = subprocess.run(["git", "-C", wt, "status", "--porcelain", "--untracked-files=no"], capture_output=True, text=True).stdout.strip()
if st:
    print("TREE NOT CLEAN:", st)
    sys.exit(3)
r = subprocess.run(["git", "-C", wt, "apply", patch])
if r.returncode != 0:
    print("PATCH DOES NOT APPLY", patch)
    sys.exit(3)
try:
    for p in props:
        r = subprocess.run([os.environ.get("VX_CHECK", "/verif/check"), p, "--tier", tier], capture_output=True, text=True, env=env)
        first = next((l for l in r.stdout.splitlines() if l.startswith("VIOLATION")), "")
        detail = next((l.strip() for l in r.stderr.splitlines() if l.startswith("    ")), "")
        print("%s %s -> exit %d %s | %s" % (os.path.basename(os.path.dirname(patch)) + "/" + os.path.basename(patch), p, r.returncode, first[:120], detail[:200]))
        if r.returncode == 2:
            print(r.stderr[-1500:])
finally:
    subprocess.run(["git", "-C", wt, "checkout", "--", "."])
