#!/bin/bash
# build simx and run a property check (dev helper)
cd /verif/engines/simx && CARGO_TARGET_DIR=/verif/target/simx cargo build --release 2>&1 | grep -E '^error' -A14 | head -40
/verif/target/simx/release/simx check "$@" --out /tmp/frag.json --replays /tmp/replays 2>&1 | tail -8
