#!/usr/bin/env python3
"""Regression of the detection catalogue: applies every seeded change to a scratch worktree of /repo and runs the
quick checks that are supposed to report it (VX_REPO/VX_TARGET point the checks at the scratch copy, so /repo itself
is not touched). Writes /verif/seeded/catalogue.json."""
import glob
import json
import os
import subprocess
import sys

BASE = os.environ.get("CAT_DIR", "/tmp/cat")
WT = BASE + "/repo"
TGT = BASE + "/target"
OUTJ = os.environ.get("CAT_OUT", "/verif/seeded/catalogue.json")
os.makedirs(BASE, exist_ok=True)
if not os.path.exists(WT):
    subprocess.run(["git", "-C", "/repo", "worktree", "add", "-q", "--detach", WT, "HEAD"], check=True)
head = subprocess.run(["git", "-C", "/repo", "rev-parse", "HEAD"], capture_output=True, text=True).stdout.strip()
subprocess.run(["git", "-C", WT, "checkout", "-q", "--detach", head], check=True)
env = dict(os.environ, VX_REPO=WT, VX_TARGET=TGT)
res = {}
only = sys.argv[1:]
REVERTS = {"revert-D1": ["C06", "C16"], "revert-D2": ["C08"], "revert-D3": ["C11"], "revert-D4": ["C06"], "revert-D5": ["C08"], "revert-D6": ["C11"], "revert-D7": ["C04"], "revert-D8": ["C19"]}
for d in sorted(glob.glob("/verif/seeded/*/")):
    key = os.path.basename(d.rstrip("/"))
    if only and key not in only:
        continue
    if key == "benign":
        continue
    patch = os.path.join(d, "patch.diff")
    meta = os.path.join(d, "meta.json")
    if os.path.exists(meta):
        checks = json.load(open(meta))["reported_by_quick_checks"]
    else:
        checks = REVERTS[key[:9]]
    subprocess.run(["git", "-C", WT, "checkout", "--", "."], check=True)
    subprocess.run(["git", "-C", WT, "clean", "-fdq"], check=True)
    r = subprocess.run(["git", "-C", WT, "apply", patch])
    if r.returncode != 0:
        res[key] = {"error": "patch does not apply"}
        continue
    out = {}
    if not checks:
        continue
    if os.environ.get("CAT_FIRST_ONLY"):
        checks = checks[:1]
    for c in checks:
        r = subprocess.run([os.environ.get("VX_CHECK", "/verif/check"), c], env=env, capture_output=True, text=True)
        first = next((l for l in r.stdout.splitlines() if l.startswith("VIOLATION")), "")
        out[c] = {"exit": r.returncode, "line": first}
        print(key, c, r.returncode, first[:110], flush=True)
    res[key] = out
    subprocess.run(["git", "-C", WT, "checkout", "--", "."], check=True)
if only and os.path.exists(OUTJ):
    old = json.load(open(OUTJ))
    old.update(res)
    res = old
json.dump(res, open(OUTJ, "w"), indent=1, sort_keys=True)
missed = [(k, c) for k, v in res.items() for c, o in v.items() if isinstance(o, dict) and o.get("exit") != 1]
print("MISSED:", missed)
