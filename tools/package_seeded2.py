#!/usr/bin/env python3
"""Round 2 of seeded changes (sub-agents asked for less central code sites): packages the confirmed ones into
/verif/seeded/<prop>-r2-m<n>/ and appends them to /verif/seeded/README.md."""
import glob
import json
import os
import shutil

OUT = "/tmp/mut2/out"
DST = "/verif/seeded"
VER = json.load(open("/tmp/mut2/verify.json"))

INFO = json.load(open(os.path.join(DST, "round2_info.json")))
# checks expected to report each change (own property first); verified by tools/catalogue.py
ALSO = {
    "C01-m1": ["C08"], "C01-m2": ["C08"], "C02-m1": ["C03"], "C02-m2": ["C03"], "C03-m1": ["C07"], "C03-m2": ["C04"],
    "C04-m1": ["C03"], "C04-m3": ["C03", "C07"], "C07-m1": ["C03"], "C08-m1": ["C01", "C15", "C18"], "C09-m1": ["C10"],
    "C10-m1": ["C03", "C07"], "C10-m2": ["C09"], "C11-m1": ["C16"], "C15-m2": ["C08", "C18"], "C16-m1": ["C11"],
    "C18-m2": ["C08"], "C20-m2": ["C07"],
}
OWN_OVERRIDE = {"C16-m2": ["C04"]}

rows = []
for key in sorted(INFO):
    prop, n = key.split("-m")
    v = VER.get(key)
    if not v or not v.get("confirmed"):
        print("skip (not confirmed):", key)
        continue
    name = "%s-r2-m%s" % (prop, n)
    d = os.path.join(DST, name)
    os.makedirs(d, exist_ok=True)
    src = os.path.join(OUT, prop, "mutant%s.diff" % n)
    if not os.path.exists(src):
        src = os.path.join(OUT, prop, "bonus_mutant%s.diff" % n)
    shutil.copy(src, os.path.join(d, "patch.diff"))
    for f in glob.glob(os.path.join(OUT, prop, "demo%s*.rs" % n)):
        shutil.copy(f, os.path.join(d, os.path.basename(f)))
    what, needs = INFO[key]["what"], INFO[key]["needs"]
    checks = OWN_OVERRIDE.get(key, [prop]) + ALSO.get(key, [])
    meta = {
        "property": prop,
        "what": what,
        "needs_to_manifest": needs,
        "origin": "independent sub-agent (second round: asked for less central code sites), given only the property text and a scratch worktree",
        "confirmed_in_scratch_worktree": {
            "demo_cmd": v["demo_cmd"],
            "demo_passes_on_unchanged_tree": v["demo_on_unchanged_tree_passes"],
            "demo_fails_with_change": v["demo_with_change_fails"],
            "suite_with_change": v["suite_with_change"]["summary"],
            "suite_failures_after_serial_rerun": v["suite_with_change"]["failures_after_serial_rerun"],
            "note": "wall-clock tests of the suite are flaky on a loaded machine; first-pass failures were re-run serially",
        },
        "reported_by_quick_checks": checks,
        "how_checked": "tools/mutrun.py <patch> <checks>",
    }
    json.dump(meta, open(os.path.join(d, "meta.json"), "w"), indent=1)
    rows.append((name, prop, what, needs, ", ".join(checks)))

readme = os.path.join(DST, "README.md")
text = open(readme).read()
marker = "\n## Round 2\n"
if marker in text:
    text = text[:text.index(marker)]
text += marker + "\nSub-agents were asked for *different, less central* code sites than in round 1.\n\n| id | property | change | needs | reported by (quick) |\n|---|---|---|---|---|\n"
for r in rows:
    text += "| %s | %s | %s | %s | %s |\n" % r
text += "| revert-D6-C11-process-after-timeout | C11 | reverse of fix abbe7ca | process_event/process_query/process after a Timeout on the single-threaded executor | C11 |\n"
open(readme, "w").write(text)
print("packaged", len(rows))
