#!/usr/bin/env python3
"""Round 2 of seeded changes (sub-agents asked for less central code sites): packages the confirmed ones into
/verif/seeded/<prop>-r2-m<n>/ and appends them to /verif/seeded/README.md."""
import glob
import json
import os
import shutil

OUT = "/tmp/mut2/out"
DST = "/verif/seeded"
VER = json.load(open("/tmp/mut2/verify.json"))

INFO = {
 "C01-m1": ("schedule_keyed_event_from validates the deadline before taking the queue lock (only this variant)", "a Scheduler clone on a second thread using schedule_keyed_event exactly while the simulation steps", ["C08", "C01"]),
 "C01-m2": ("keyed periodic variant accepts deadline == now (`time < now`)", "schedule_keyed_periodic_event with Duration::ZERO or an absolute deadline equal to the current time", ["C01", "C08"]),
 "C02-m1": ("BroadcastFuture counts a woken, still pending delivery as finished", "fan-out output, one full recipient mailbox, another sender takes the freed slot before the re-poll", ["C02", "C03"]),
 "C02-m2": ("first-poll fast path of BroadcastFuture only reflects the last recipient", "fan-out output where a recipient that is not the last connected one has a full mailbox", ["C02", "C03"]),
 "C03-m1": ("SeqFuture advances its index before polling", ">= 2 same-time same-origin events exceeding the free mailbox capacity", ["C03", "C07", "C10"]),
 "C03-m2": ("output slots of BroadcastFuture emptied only on cancellation (two cooperating sites)", "second broadcast on a multi-recipient port while a recipient mailbox is full", ["C03", "C04"]),
 "C04-m1": ("BroadcastFuture::new no longer empties the output slots", "multi-recipient output, second or later broadcast, full target mailbox", ["C04", "C03"]),
 "C04-m2": ("Injector::pop_bucket marks the injector empty when one bucket is left (`len() <= 1`)", ">= 2 buckets in the injector (129+ tasks before one run), multi-threaded executor", ["C04"]),
 "C06-m1": ("single-threaded executor no longer saves/restores the thread-local in-flight counter", "a simulation built on a thread on which an earlier simulation panicked with messages in flight", ["C06"]),
 "C06-m2": ("deadlock report pairs observers and names by position (observer pushed before build, name after)", "a stalled model in a hierarchy with sub-models", ["C06", "C16"]),
 "C08-m1": ("keyed periodic variant validates the deadline before taking the queue lock", "a foreign thread calling schedule_keyed_periodic_event while the simulation steps", ["C08", "C01", "C15", "C18"]),
 "C08-m2": ("zero-period check through a new ActionInner::period() that KeyedPeriodicAction does not override", "Scheduler::schedule with EventSource::keyed_periodic_event(Duration::ZERO)", ["C08"]),
 "C09-m1": ("keyed periodic model-input events checked when sent instead of when processed", "a keyed periodic event cancelled during the step in which an occurrence is due", ["C09", "C10"]),
 "C09-m2": ("AutoActionKey::drop only cancels when the Arc has exactly two owners", "auto key dropped while a clone of the key is alive, or from inside the periodic action's own handler", ["C09"]),
 "C10-m1": ("SeqFuture advances its index before polling", "coinciding periodic occurrences of one origin and a full mailbox", ["C10", "C03", "C07"]),
 "C10-m2": ("keyed periodic events lose the delivery-time key check", "a keyed periodic event cancelled by an earlier same-origin event exactly at an occurrence time", ["C10", "C09"]),
 "C11-m1": ("ModelId computed before build()", "Panic / NoRecipient raised by a model that owns sub-models", ["C11", "C16"]),
 "C11-m2": ("single-threaded executor checks the message balance before the caught panic", "a panic or dead-mailbox send while other messages are still queued", ["C11"]),
 "C12-m1": ("Sender::send notifies the receiver only if the queue was empty when the send started", "a sender (not the receiving model) that had to wait for space", ["C12"]),
 "C12-m2": ("Queue::len rewritten with a mask: wrong for non-power-of-two capacities across the wrap-around", "capacity 3, 5, 6, 7, 12 with a partially filled queue straddling the wrap", ["C12", "C06"]),
 "C13-m1": ("runnable_exists() no longer counts the wind-down phase (CLOSED|POLLING)", "task cancelled while polled, poll returns Pending, last reference dropped while the Runnable drops the future", ["C13"]),
 "C13-m2": ("wake_by_val releases the task when the pre-wake state shows no Runnable", "idle pending task, cancel token dropped, no promise, exactly one waker woken by value", ["C13"]),
 "C14-m1": ("TaskSet::resize assigns indices from task_count instead of the vector length", "three queries whose accepting-replier counts go n2 < n1 < n3 (shrink, then grow past the old maximum)", ["C14"]),
 "C14-m2": ("source BroadcastFuture arms the countdown with the number of pending futures", "a QuerySource/EventSource with >= capacity+2 connections to one model", ["C14", "C03"]),
 "C15-m1": ("SyncCellReader::read reuses the Relaxed end-of-attempt count as the next start count", "a retry after a failed attempt under the C11 memory model", ["C15"]),
 "C15-m2": ("keyed periodic variant validates the deadline before the queue lock (time goes backwards)", "a foreign thread scheduling during a step", ["C15", "C08", "C01", "C18"]),
 "C16-m1": ("ModelId computed before build()", "an error raised by a model that has sub-models", ["C16", "C11"]),
 "C16-m2": ("local queue size x4 and overflow drain of n/2 while a bucket keeps 128 tasks: 128 tasks dropped", ">= 2 workers and > 512 wake-ups from one worker in a single poll", ["C04"]),
 "C17-m1": ("EventBufferWriter::write split into two critical sections (evicted event dropped outside the lock)", "two models writing to one buffer from two workers at exactly capacity-1", ["C17"]),
 "C17-m2": ("open flag read under the lock but after the eviction step", "a write to a closed, exactly full buffer", ["C17"]),
 "C18-m1": ("final synchronize of step_until moved before the locked time commit", "another thread (or the clock itself) scheduling an event at or before the target during that synchronize", ["C18"]),
 "C18-m2": ("keyed periodic variant validates the deadline before the queue lock", "another thread scheduling while the simulation steps", ["C18", "C08"]),
 "C19-m1": ("activate_all_workers only unparks workers whose active bit was clear", "executor dropped after a timeout while a handler still runs on a worker", ["C19"]),
 "C19-m2": ("BroadcastFuture::drop returns early while deliveries are pending", "a suspended fan-out broadcast when the simulation is dropped", ["C19"]),
 "C20-m1": ("IndexedPriorityQueue re-created (epoch reset) when a queue of > 1024 slots drains", "> 1024 live entries, a full drain, new inserts, then a stale key", ["C20"]),
 "C20-m2": ("PriorityQueue::pull resets the epoch counter when at most one item remains", "a pull leaving exactly one entry, then an insert with the same key", ["C20", "C07"]),
}

rows = []
for key in sorted(INFO):
    prop, n = key.split("-m")
    v = VER.get(key)
    if not v or not v.get("confirmed"):
        print("skip (not confirmed):", key)
        continue
    name = "%s-r2-m%s" % (prop, n)
    d = os.path.join(DST, name)
    os.makedirs(d, exist_ok=True)
    shutil.copy(os.path.join(OUT, prop, "mutant%s.diff" % n), os.path.join(d, "patch.diff"))
    for f in glob.glob(os.path.join(OUT, prop, "demo%s*.rs" % n)):
        shutil.copy(f, os.path.join(d, os.path.basename(f)))
    what, needs, checks = INFO[key]
    meta = {
        "property": prop,
        "what": what,
        "needs_to_manifest": needs,
        "origin": "independent sub-agent (second round: asked for less central code sites), given only the property text and a scratch worktree",
        "confirmed_in_scratch_worktree": {
            "demo_cmd": v["demo_cmd"],
            "demo_passes_on_unchanged_tree": v["demo_on_unchanged_tree_passes"],
            "demo_fails_with_change": v["demo_with_change_fails"],
            "suite_with_change": v["suite_with_change"]["summary"],
            "suite_failures_after_serial_rerun": v["suite_with_change"]["failures_after_serial_rerun"],
            "note": "wall-clock tests of the suite are flaky on a loaded machine; first-pass failures were re-run serially",
        },
        "reported_by_quick_checks": checks,
        "how_checked": "tools/mutrun.py <patch> <checks>",
    }
    json.dump(meta, open(os.path.join(d, "meta.json"), "w"), indent=1)
    rows.append((name, prop, what, needs, ", ".join(checks)))

readme = os.path.join(DST, "README.md")
text = open(readme).read()
marker = "\n## Round 2\n"
if marker in text:
    text = text[:text.index(marker)]
text += marker + "\nSub-agents were asked for *different, less central* code sites than in round 1.\n\n| id | property | change | needs | reported by (quick) |\n|---|---|---|---|---|\n"
for r in rows:
    text += "| %s | %s | %s | %s | %s |\n" % r
text += "| revert-D6-C11-process-after-timeout | C11 | reverse of fix abbe7ca | process_event/process_query/process after a Timeout on the single-threaded executor | C11 |\n"
open(readme, "w").write(text)
print("packaged", len(rows))
