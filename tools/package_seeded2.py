#!/usr/bin/env python3
"""Round 2 of seeded changes (sub-agents asked for less central code sites): packages the confirmed ones into
/verif/seeded/<prop>-r2-m<n>/ and appends them to /verif/seeded/README.md."""
import glob
import json
import os
import shutil

import sys
ROUND = int(sys.argv[1]) if len(sys.argv) > 1 else 2
OUT = "/tmp/mut%d/out" % ROUND
DST = "/verif/seeded"
VER = json.load(open("/tmp/mut%d/verify.json" % ROUND))

INFO = json.load(open(os.path.join(DST, "round%d_info.json" % ROUND)))
# checks expected to report each change (own property first); verified by tools/catalogue.py
ALSO = {
    "C01-m1": ["C08"], "C01-m2": ["C08"], "C02-m1": ["C03"], "C02-m2": ["C03"], "C03-m1": ["C07"], "C03-m2": ["C04"],
    "C04-m1": ["C03"], "C04-m3": ["C03", "C07"], "C07-m1": ["C03"], "C08-m1": ["C01", "C15", "C18"], "C09-m1": ["C10"],
    "C10-m1": ["C03", "C07"], "C10-m2": ["C09"], "C11-m1": ["C16"], "C15-m2": ["C08", "C18"], "C16-m1": ["C11"],
    "C18-m2": ["C08"], "C20-m2": ["C07"],
}
OWN_OVERRIDE = {}
if ROUND == 2:
    ALSO["C16-m2"] = ["C04"]
elif ROUND >= 4:
    ALSO = {}
    if ROUND == 6:
        OWN_OVERRIDE = {"C19-m2": []}
    if ROUND == 4:
        # Not reported by any check: the change only matters after 2^31 operations on one task (DESIGN 6.3).
        OWN_OVERRIDE = {"C05-m1": [], "C05-m2": []}
        ALSO = {"C01-m1": ["C04", "C08", "C16"], "C08-m1": ["C04", "C16"], "C01-m2": ["C07", "C10"], "C15-m1": ["C01"], "C07-m2": ["C01"], "C16-m1": ["C11"], "C11-m1": ["C16"], "C06-m1": ["C12"], "C12-m1": ["C06"]}
else:
    ALSO = {"C06-m1": ["C12"], "C08-m2": ["C16", "C04"], "C16-m2": ["C08", "C04"], "C10-m1": ["C14"], "C11-m1": ["C16"], "C16-m1": ["C11"], "C07-m2": ["C20"], "C20-m2": ["C07"]}

rows = []
for key in sorted(INFO):
    prop, n = key.split("-m")
    v = VER.get(key)
    if not v or not v.get("confirmed"):
        print("skip (not confirmed):", key)
        continue
    name = "%s-r%d-m%s" % (prop, ROUND, n)
    d = os.path.join(DST, name)
    os.makedirs(d, exist_ok=True)
    src = os.path.join(OUT, prop, "mutant%s.diff" % n)
    if not os.path.exists(src):
        src = os.path.join(OUT, prop, "bonus_mutant%s.diff" % n)
    shutil.copy(src, os.path.join(d, "patch.diff"))
    for f in glob.glob(os.path.join(OUT, prop, "demo%s*.rs" % n)):
        shutil.copy(f, os.path.join(d, os.path.basename(f)))
    what, needs = INFO[key]["what"], INFO[key]["needs"]
    checks = OWN_OVERRIDE.get(key, [prop]) + ALSO.get(key, [])
    meta = {
        "property": prop,
        "what": what,
        "needs_to_manifest": needs,
        "origin": "independent sub-agent (round %d), given only the property text and a scratch worktree" % ROUND,
        "confirmed_in_scratch_worktree": {
            "demo_cmd": v["demo_cmd"],
            "demo_passes_on_unchanged_tree": v["demo_on_unchanged_tree_passes"],
            "demo_fails_with_change": v["demo_with_change_fails"],
            "suite_with_change": v["suite_with_change"]["summary"],
            "suite_failures_after_serial_rerun": v["suite_with_change"]["failures_after_serial_rerun"],
            "note": "wall-clock tests of the suite are flaky on a loaded machine; first-pass failures were re-run serially",
        },
        "reported_by_quick_checks": checks,
        "how_checked": "tools/mutrun.py <patch> <checks>",
    }
    json.dump(meta, open(os.path.join(d, "meta.json"), "w"), indent=1)
    rows.append((name, prop, what, needs, ", ".join(checks) if checks else "none (out of reach)"))

readme = os.path.join(DST, "README.md")
text = open(readme).read()
marker = "\n## Round %d\n" % ROUND
if marker in text:
    text = text[:text.index(marker)]
later = ""
if marker in open(readme).read():
    rest = open(readme).read().split(marker, 1)[1]
    if "\n## Round" in rest:
        later = "\n## Round" + rest.split("\n## Round", 1)[1]
intro = {2: "Sub-agents were asked for *different, less central* code sites than in round 1.",
         3: "Sub-agents were asked for a third class of change: memory orderings, off-by-one errors in masks and counters, resource lifecycle, state surviving across steps / clones / simulations, rare API combinations, the worker-thread protocol.",
         4: "Sub-agents were asked for changes that short, small scenarios would not show: larger sizes and longer histories, extreme values, rare API and type shapes, particular orders of configuration and use. `C05-r4-m1/m2` are reported by no check (they need 2^31 operations on one task, see DESIGN 6.3).",
         5: "Free choice of site, avoiding everything used in rounds 2-4.",
         6: "Free choice of site for 16 properties, avoiding everything used in rounds 2-5. `C19-r6-m2` is reported by no check (a memory-only leak, see DESIGN 6.3)."}[ROUND]
text += marker + "\n" + intro + "\n\n| id | property | change | needs | reported by (quick) |\n|---|---|---|---|---|\n"
for r in rows:
    text += "| %s | %s | %s | %s | %s |\n" % r
if ROUND == 2:
    text += "| revert-D6-C11-process-after-timeout | C11 | reverse of fix abbe7ca | process_event/process_query/process after a Timeout on the single-threaded executor | C11 |\n"
    text += "| revert-D7-C04-64-workers | C04 | reverse of fix 6bd1e08 | multi-threaded executor with 64 worker threads in a build with overflow checks | C04 |\n"
open(readme, "w").write(text + later)
print("packaged", len(rows))
