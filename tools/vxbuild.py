#!/usr/bin/env python3
"""vxbuild.py shuttle|loom : (re)build a mirror engine exactly as the dispatcher does (dev helper)."""
import importlib.machinery, importlib.util, os, sys
root = os.path.dirname(os.path.dirname(os.path.abspath(__file__)))
loader = importlib.machinery.SourceFileLoader("vxcheck", os.path.join(root, "check"))
spec = importlib.util.spec_from_loader("vxcheck", loader)
m = importlib.util.module_from_spec(spec)
loader.exec_module(m)
try:
    print(m.build_mirror(sys.argv[1], {"shuttle": "shutx", "loom": "loomx"}[sys.argv[1]]))
except m.Machinery as e:
    print("BUILD FAILED:", e)
    sys.exit(2)
