#!/bin/bash
# snap.sh <dir>: frozen copy of the checking machinery (for long mutant batches while /verif is being edited).
# Use with VX_CHECK=<dir>/check tools/mutrun.py ...
set -e
d=${1:-/tmp/vsnap}
mkdir -p $d
rsync -a --delete --exclude target --exclude evidence --exclude replays --exclude .git --exclude seeded /verif/ $d/
echo $d
