#!/bin/bash
python3 /verif/tools/vxbuild.py loom 2>&1 | grep -E "^error|BUILD FAILED" -A12 | head -60
