#!/bin/bash
# regenerate + build the loom mirror (dev helper)
python3 /verif/engines/mirror/mirror.py loom ${VX_REPO:-/repo} /tmp/vx-mirror-loom-0 >/dev/null && cd /tmp/vx-mirror-loom-0 && CARGO_TARGET_DIR=/verif/target/loomx cargo build --release 2>&1 | grep -E '^error' -A12 | head -80
