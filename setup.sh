#!/bin/bash
# Builds the framework offline from files on disk (run once after a fresh restore).
set -e
cd "$(dirname "$0")"
export CARGO_NET_OFFLINE=true
mkdir -p target .work evidence replays
( cd engines/simx && CARGO_TARGET_DIR=../../target/simx cargo build --release --offline 2>&1 | tail -2 )
( cd engines/seqx && CARGO_TARGET_DIR=../../target/seqx cargo build --release --offline 2>&1 | tail -2 )
python3 engines/mirror/mirror.py shuttle /repo /tmp/vx-mirror-shuttle-$(id -u) >/dev/null && ( cd /tmp/vx-mirror-shuttle-$(id -u) && CARGO_TARGET_DIR=$OLDPWD/target/shutx cargo build --release --offline 2>&1 | tail -2 ); rm -rf /tmp/vx-mirror-shuttle-$(id -u)
python3 engines/mirror/mirror.py loom /repo /tmp/vx-mirror-loom-$(id -u) >/dev/null && ( cd /tmp/vx-mirror-loom-$(id -u) && CARGO_TARGET_DIR=$OLDPWD/target/loomx cargo build --release --offline 2>&1 | tail -2 ); rm -rf /tmp/vx-mirror-loom-$(id -u)
echo "setup done"
