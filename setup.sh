#!/bin/bash
# Builds the framework offline from files on disk (run once after a fresh restore).
set -e
cd "$(dirname "$0")"
export CARGO_NET_OFFLINE=true
mkdir -p target .work evidence replays
( cd engines/simx && CARGO_TARGET_DIR=../../target/simx cargo build --release --offline 2>&1 | tail -2 )
( cd engines/seqx && CARGO_TARGET_DIR=../../target/seqx cargo build --release --offline 2>&1 | tail -2 )
echo "setup done"
