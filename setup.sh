#!/bin/bash
# Builds the framework offline from files on disk (run once after a fresh restore).
set -e
cd "$(dirname "$0")"
export CARGO_NET_OFFLINE=true
mkdir -p target .work evidence replays
( cd engines/simx && CARGO_TARGET_DIR=../../target/simx cargo build --release --offline 2>&1 | tail -2 )
( cd engines/seqx && CARGO_TARGET_DIR=../../target/seqx cargo build --release --offline 2>&1 | tail -2 )
# The mirror engines are built by the dispatcher itself (same scratch path as the checks use, so cargo reuses the build).
python3 - <<'PY'
import importlib.machinery, importlib.util, os
loader = importlib.machinery.SourceFileLoader("vxcheck", os.path.join(os.getcwd(), "check"))
spec = importlib.util.spec_from_loader("vxcheck", loader)
m = importlib.util.module_from_spec(spec)
loader.exec_module(m)
m.build_mirror("shuttle", "shutx")
m.build_mirror("loom", "loomx")
print("mirrors built")
PY
echo "setup done"
