// Binds the data-structure source files of the repository into this crate by
// absolute path (the repository root comes from VX_REPO, default /repo).
use std::io::Write;
fn main() {
    let repo = std::env::var("VX_REPO").unwrap_or_else(|_| "/repo".to_string());
    let out = std::env::var("OUT_DIR").unwrap();
    let files = [
        ("priority_queue", "nexosim/src/util/priority_queue.rs"),
        ("indexed_priority_queue", "nexosim/src/util/indexed_priority_queue.rs"),
        ("queue", "nexosim/src/channel/queue.rs"),
        ("seq_futures", "nexosim/src/util/seq_futures.rs"),
        ("injector", "nexosim/src/executor/mt_executor/injector.rs"),
    ];
    let mut f = std::fs::File::create(format!("{}/incl.rs", out)).unwrap();
    for (m, p) in files {
        let full = format!("{}/{}", repo, p);
        assert!(std::path::Path::new(&full).exists(), "missing source file {}", full);
        writeln!(f, "#[allow(dead_code, unused, clippy::all)]\n#[path = \"{}\"]\npub mod {};", full, m).unwrap();
        println!("cargo:rerun-if-changed={}", full);
    }
    // The queue harness must live inside the module that binds queue.rs
    // (its items are `pub(super)`).
    let manifest = std::env::var("CARGO_MANIFEST_DIR").unwrap();
    writeln!(f, "#[path = \"{}/src/qq.rs\"]\npub mod qq;", manifest).unwrap();
    println!("cargo:rerun-if-changed={}/src/qq.rs", manifest);
    println!("cargo:rerun-if-env-changed=VX_REPO");
}
