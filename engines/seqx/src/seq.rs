//! Exhaustive enumeration of operation sequences. A subject bundles the real
//! structure and its reference model; histories are re-executed from scratch
//! for every extension (live objects are never cloned).

use std::collections::hash_map::DefaultHasher;
use std::collections::HashSet;
use std::fmt::Debug;
use std::hash::{Hash, Hasher};
use std::sync::atomic::{AtomicUsize, Ordering};
use std::sync::Mutex;

use crate::{Mismatch, Outcome};

pub trait Subject: Sized {
    type Op: Clone + Debug + Send + Sync;
    type Cfg: Clone + Debug + Send + Sync;
    fn fresh(cfg: &Self::Cfg) -> Self;
    /// Operations enabled in the current state (may depend on the history).
    fn ops(&self) -> Vec<Self::Op>;
    /// Applies the operation to the implementation and to the model; returns
    /// the observation (for outcome counting) or a description of the
    /// disagreement.
    fn apply(&mut self, op: &Self::Op) -> Result<String, String>;
    /// Canonical state of the reference model plus everything observable.
    fn state_key(&self) -> String;
}

fn h<T: Hash>(t: &T) -> u64 {
    let mut s = DefaultHasher::new();
    t.hash(&mut s);
    s.finish()
}

struct Acc {
    states: HashSet<u64>,
    obs: HashSet<u64>,
    transitions: u64,
    traces: u64,
    mismatch: Option<Mismatch>,
}

fn rec<S: Subject>(cfg: &S::Cfg, prefix: &mut Vec<S::Op>, depth: usize, acc: &mut Acc) {
    if acc.mismatch.is_some() {
        return;
    }
    let mut s = S::fresh(cfg);
    let mut obs_trace: Vec<String> = vec![];
    for (i, op) in prefix.iter().enumerate() {
        let r = std::panic::catch_unwind(std::panic::AssertUnwindSafe(|| s.apply(op)));
        let r = match r {
            Ok(r) => r,
            Err(_) => Err("the implementation panicked".to_string()),
        };
        match r {
            Ok(o) => {
                if i + 1 == prefix.len() {
                    acc.transitions += 1;
                    acc.obs.insert(h(&o));
                }
                obs_trace.push(o);
            }
            Err(m) => {
                acc.mismatch = Some(Mismatch {
                    history: std::iter::once(format!("cfg {:?}", cfg)).chain(prefix[..=i].iter().map(|o| format!("{:?}", o))).collect(),
                    msg: m,
                });
                return;
            }
        }
    }
    acc.states.insert(h(&s.state_key()));
    if prefix.len() == depth {
        acc.traces += 1;
        return;
    }
    let ops = s.ops();
    drop(s);
    for op in ops {
        prefix.push(op);
        rec::<S>(cfg, prefix, depth, acc);
        prefix.pop();
    }
}

/// Iterative deepening, so that the first counterexample is a shortest one.
pub fn explore<S: Subject>(name: &'static str, cfgs: &[S::Cfg], depth: usize) -> Outcome {
    let mut d = 2.min(depth);
    loop {
        let o = explore_depth::<S>(name, cfgs, d);
        if o.mismatch.is_some() || d >= depth {
            return o;
        }
        d += 1;
    }
}

fn explore_depth<S: Subject>(name: &'static str, cfgs: &[S::Cfg], depth: usize) -> Outcome {
    // Work items: (cfg, first two operations).
    let mut items: Vec<(S::Cfg, Vec<S::Op>)> = vec![];
    for cfg in cfgs {
        let s = S::fresh(cfg);
        for a in s.ops() {
            let mut s2 = S::fresh(cfg);
            let _ = std::panic::catch_unwind(std::panic::AssertUnwindSafe(|| s2.apply(&a)));
            for b in s2.ops() {
                items.push((cfg.clone(), vec![a.clone(), b]));
            }
        }
    }
    let next = AtomicUsize::new(0);
    let total = Mutex::new(Acc { states: HashSet::new(), obs: HashSet::new(), transitions: 0, traces: 0, mismatch: None });
    let jobs: usize = std::env::var("VX_JOBS").ok().and_then(|s| s.parse().ok()).unwrap_or(16);
    std::thread::scope(|sc| {
        for _ in 0..jobs {
            sc.spawn(|| loop {
                let i = next.fetch_add(1, Ordering::Relaxed);
                if i >= items.len() {
                    break;
                }
                if total.lock().unwrap().mismatch.is_some() {
                    break;
                }
                let (cfg, pre) = &items[i];
                let mut acc = Acc { states: HashSet::new(), obs: HashSet::new(), transitions: 0, traces: 0, mismatch: None };
                // The two-operation prefix itself.
                let mut p1 = vec![pre[0].clone()];
                if i == 0 || items[i - 1].1[0..1].iter().map(|o| format!("{:?}", o)).collect::<Vec<_>>() != p1.iter().map(|o| format!("{:?}", o)).collect::<Vec<_>>() || format!("{:?}", items[i - 1].0) != format!("{:?}", cfg) {
                    // first item of this (cfg, first op): account for the depth-1 node
                    let mut s = S::fresh(cfg);
                    match std::panic::catch_unwind(std::panic::AssertUnwindSafe(|| s.apply(&p1[0]))).unwrap_or_else(|_| Err("the implementation panicked".to_string())) {
                        Ok(o) => {
                            acc.transitions += 1;
                            acc.obs.insert(h(&o));
                            acc.states.insert(h(&s.state_key()));
                        }
                        Err(m) => {
                            acc.mismatch = Some(Mismatch { history: vec![format!("cfg {:?}", cfg), format!("{:?}", p1[0])], msg: m });
                        }
                    }
                }
                p1.clear();
                let mut prefix = pre.clone();
                if depth >= 2 {
                    rec::<S>(cfg, &mut prefix, depth, &mut acc);
                }
                let mut t = total.lock().unwrap();
                t.states.extend(acc.states);
                t.obs.extend(acc.obs);
                t.transitions += acc.transitions;
                t.traces += acc.traces;
                if t.mismatch.is_none() {
                    t.mismatch = acc.mismatch;
                }
            });
        }
    });
    let t = total.into_inner().unwrap();
    let sample = {
        let (cfg, pre) = &items[items.len() / 2];
        serde_json::json!({"structure": name, "cfg": format!("{:?}", cfg), "history_prefix": pre.iter().map(|o| format!("{:?}", o)).collect::<Vec<_>>(), "depth": depth})
    };
    Outcome {
        name,
        states: t.states.len() as u64,
        transitions: t.transitions,
        traces: t.traces,
        depth,
        distinct_observations: t.obs.len() as u64,
        mismatch: t.mismatch,
        sample,
    }
}
