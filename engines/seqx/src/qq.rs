//! C12 (sequential part): the mailbox queue against a VecDeque. This module is
//! compiled as a child of the module that binds `channel/queue.rs`.

use std::collections::VecDeque;

use recycle_box::RecycleBox;

use super::queue::{PopError, PushError, Queue};
use crate::seq::{explore, Subject};
use crate::Outcome;

#[derive(Clone, Debug)]
pub enum QOp {
    Push,
    Pop,
    Close,
}

pub struct QSubject {
    q: Queue<u64>,
    cap: usize,
    model: VecDeque<u64>,
    closed: bool,
    n: u64,
}

impl Subject for QSubject {
    type Op = QOp;
    type Cfg = usize;
    fn fresh(cap: &usize) -> Self {
        QSubject { q: Queue::new(*cap), cap: *cap, model: VecDeque::new(), closed: false, n: 0 }
    }
    fn ops(&self) -> Vec<QOp> {
        vec![QOp::Push, QOp::Pop, QOp::Close]
    }
    fn apply(&mut self, op: &QOp) -> Result<String, String> {
        let r = match op {
            QOp::Push => {
                let v = self.n;
                self.n += 1;
                let got = match self.q.push(move |b| RecycleBox::recycle(b, v)) {
                    Ok(()) => "ok",
                    Err(PushError::Full(_)) => "full",
                    Err(PushError::Closed) => "closed",
                };
                let exp = if self.closed {
                    "closed"
                } else if self.model.len() == self.cap {
                    "full"
                } else {
                    self.model.push_back(v);
                    "ok"
                };
                if got != exp {
                    return Err(format!("push returned {}, the model says {}", got, exp));
                }
                format!("push {}", got)
            }
            QOp::Pop => {
                let got = match unsafe { self.q.pop() } {
                    Ok(m) => {
                        let v: u64 = *m;
                        drop(m);
                        format!("some {}", v)
                    }
                    Err(PopError::Empty) => "empty".to_string(),
                    Err(PopError::Closed) => "closed".to_string(),
                };
                let exp = match self.model.pop_front() {
                    Some(v) => format!("some {}", v),
                    None if self.closed => "closed".to_string(),
                    None => "empty".to_string(),
                };
                if got != exp {
                    return Err(format!("pop returned {}, the model says {}", got, exp));
                }
                format!("pop {}", got)
            }
            QOp::Close => {
                self.q.close();
                self.closed = true;
                "close".to_string()
            }
        };
        if self.q.len() != self.model.len() {
            return Err(format!("len() is {} but the queue holds {} messages", self.q.len(), self.model.len()));
        }
        if self.q.is_closed() != self.closed {
            return Err(format!("is_closed() is {} instead of {}", self.q.is_closed(), self.closed));
        }
        Ok(r)
    }
    fn state_key(&self) -> String {
        format!("{:?}/{}/{}", self.model, self.closed, self.cap)
    }
}

pub fn check(depth: usize) -> Vec<Outcome> {
    vec![explore::<QSubject>("mailbox_queue", &[1, 2, 3, 4, 5], depth)]
}
