//! Engine Q: bounded-exhaustive operation sequences on the real data
//! structures (source files bound by path) against boring reference models.

#[allow(unused_macros, unused_imports, dead_code)]
mod loom_exports {
    pub(crate) mod sync {
        pub(crate) use std::sync::{Arc, LockResult, Mutex, MutexGuard, PoisonError};
        pub(crate) mod atomic {
            pub(crate) use std::sync::atomic::{
                fence, AtomicBool, AtomicIsize, AtomicPtr, AtomicU32, AtomicU64, AtomicUsize, Ordering,
            };
        }
    }
    pub(crate) mod cell {
        #[derive(Debug)]
        pub(crate) struct UnsafeCell<T>(std::cell::UnsafeCell<T>);
        impl<T> UnsafeCell<T> {
            pub(crate) fn new(data: T) -> UnsafeCell<T> {
                UnsafeCell(std::cell::UnsafeCell::new(data))
            }
            pub(crate) fn with<R>(&self, f: impl FnOnce(*const T) -> R) -> R {
                f(self.0.get())
            }
            pub(crate) fn with_mut<R>(&self, f: impl FnOnce(*mut T) -> R) -> R {
                f(self.0.get())
            }
        }
    }
    macro_rules! debug_or_loom_assert {
        ($($arg:tt)*) => (assert!($($arg)*);)
    }
    macro_rules! debug_or_loom_assert_eq {
        ($($arg:tt)*) => (assert_eq!($($arg)*);)
    }
    pub(crate) use debug_or_loom_assert;
    pub(crate) use debug_or_loom_assert_eq;
}

mod bound {
    include!(concat!(env!("OUT_DIR"), "/incl.rs"));
}

mod inj;
mod pq;
mod seq;
mod seqfut;
mod sinks;
use bound::qq;

use serde_json::{json, Value};
use std::process::exit;

/// A failed comparison: the operation history and what differed.
pub struct Mismatch {
    pub history: Vec<String>,
    pub msg: String,
}

pub struct Outcome {
    pub name: &'static str,
    pub states: u64,
    pub transitions: u64,
    pub traces: u64,
    pub depth: usize,
    pub distinct_observations: u64,
    pub mismatch: Option<Mismatch>,
    pub sample: Value,
}

fn main() {
    std::panic::set_hook(Box::new(|_| {}));
    let args: Vec<String> = std::env::args().collect();
    if args.len() < 3 || args[1] != "check" {
        eprintln!("usage: seqx check <PROP> --tier quick|thorough --out <file> [--replays dir]");
        exit(2);
    }
    let prop = args[2].clone();
    let mut tier = "quick".to_string();
    let mut out = None;
    let mut replays = "/verif/replays".to_string();
    let mut i = 3;
    while i + 1 < args.len() {
        match args[i].as_str() {
            "--tier" => tier = args[i + 1].clone(),
            "--out" => out = Some(args[i + 1].clone()),
            "--replays" => replays = args[i + 1].clone(),
            _ => {}
        }
        i += 2;
    }
    let t0 = std::time::Instant::now();
    let quick = tier == "quick";
    let outcomes: Vec<Outcome> = match prop.as_str() {
        "C20" => vec![pq::check_pq(if quick { 9 } else { 11 }), pq::check_ipq(if quick { 8 } else { 9 }), pq::check_pq_regimes(), pq::check_ipq_regimes()],
        "C17" => sinks::check(if quick { 7 } else { 9 }),
        "C04" => vec![inj::check(if quick { 9 } else { 11 })],
        "C07" => vec![seqfut::check(if quick { 5 } else { 7 })],
        "C12" => qq::check(if quick { 12 } else { 15 }),
        _ => {
            eprintln!("seqx: unknown property {}", prop);
            exit(2)
        }
    };
    let mut violations = vec![];
    for o in &outcomes {
        if let Some(m) = &o.mismatch {
            let dir = format!("{}/{}", replays, prop);
            let _ = std::fs::create_dir_all(&dir);
            let path = format!("{}/{}-seqx-{}.json", dir, prop, o.name);
            let js = json!({"engine": "seqx", "property": prop, "structure": o.name, "history": m.history, "violations": [m.msg]});
            let _ = std::fs::write(&path, serde_json::to_string_pretty(&js).unwrap());
            violations.push(json!({"family": o.name, "label": o.name, "tag": "model_mismatch", "message": format!("{} after {:?}", m.msg, m.history), "replay": path}));
        }
    }
    let frag = json!({
        "engine": "seqx", "property": prop, "tier": tier,
        "families": outcomes.iter().map(|o| json!({"structure": o.name, "states": o.states, "transitions": o.transitions,
            "traces": o.traces, "depth": o.depth, "distinct_observations": o.distinct_observations})).collect::<Vec<_>>(),
        "states": outcomes.iter().map(|o| o.states).sum::<u64>(),
        "transitions": outcomes.iter().map(|o| o.transitions).sum::<u64>(),
        "traces_validated_against_impl": outcomes.iter().map(|o| o.traces).sum::<u64>(),
        "evaluations": outcomes.iter().map(|o| o.traces).sum::<u64>(),
        "distinct_nontrivial": outcomes.iter().map(|o| o.states).sum::<u64>(),
        "samples": outcomes.iter().map(|o| o.sample.clone()).collect::<Vec<_>>(),
        "exhaustive": true,
        "violations": violations,
        "machinery_error": null,
        "wall_s": t0.elapsed().as_secs_f64(),
    });
    let text = serde_json::to_string_pretty(&frag).unwrap();
    match out {
        Some(p) => std::fs::write(p, text).unwrap(),
        None => println!("{}", text),
    }
    for v in frag["violations"].as_array().unwrap() {
        println!("VIOLATION property={} replay={}", prop, v["replay"].as_str().unwrap());
        eprintln!("  {}", v["message"].as_str().unwrap());
    }
    eprintln!(
        "seqx {} {}: {} traces, {} states, {} violations, {:.1}s",
        prop, tier, frag["traces_validated_against_impl"], frag["states"], frag["violations"].as_array().unwrap().len(), t0.elapsed().as_secs_f64()
    );
    exit(if frag["violations"].as_array().unwrap().is_empty() { 0 } else { 1 });
}
