//! C20: PriorityQueue and IndexedPriorityQueue against a sorted vector.

use crate::bound::indexed_priority_queue::{IndexedPriorityQueue, InsertKey};
use crate::bound::priority_queue::PriorityQueue;
use crate::seq::{explore, Subject};
use crate::Outcome;

#[derive(Clone, Debug)]
pub enum PqOp {
    Insert(u8),
    Pull,
    Peek,
}

pub struct PqSubject {
    q: PriorityQueue<u8, u32>,
    model: Vec<(u8, u32)>,
    seq: u32,
}

impl Subject for PqSubject {
    type Op = PqOp;
    type Cfg = ();
    fn fresh(_: &()) -> Self {
        PqSubject { q: PriorityQueue::new(), model: vec![], seq: 0 }
    }
    fn ops(&self) -> Vec<PqOp> {
        vec![PqOp::Insert(0), PqOp::Insert(1), PqOp::Insert(2), PqOp::Pull, PqOp::Peek]
    }
    fn apply(&mut self, op: &PqOp) -> Result<String, String> {
        let min = self.model.iter().copied().min();
        match op {
            PqOp::Insert(k) => {
                self.q.insert(*k, self.seq);
                self.model.push((*k, self.seq));
                self.seq += 1;
                Ok("ins".into())
            }
            PqOp::Pull => {
                let got = self.q.pull();
                if got != min {
                    return Err(format!("pull returned {:?}, the model says {:?}", got, min));
                }
                if let Some(m) = min {
                    self.model.retain(|e| *e != m);
                }
                Ok(format!("pull {:?}", got))
            }
            PqOp::Peek => {
                let got = self.q.peek().map(|(k, v)| (*k, *v));
                if got != min {
                    return Err(format!("peek returned {:?}, the model says {:?}", got, min));
                }
                Ok(format!("peek {:?}", got))
            }
        }
    }
    fn state_key(&self) -> String {
        let mut m = self.model.clone();
        m.sort();
        format!("{:?}", m)
    }
}

pub fn check_pq(depth: usize) -> Outcome {
    explore::<PqSubject>("priority_queue", &[()], depth)
}

#[derive(Clone, Debug)]
pub enum IpqOp {
    Insert(u8),
    Pull,
    Peek,
    /// Extract through the i-th key ever issued (possibly stale).
    Extract(usize),
    /// Extract through a key forged from the slot index of issued key i and
    /// the epoch of issued key j.
    Forge(usize, usize),
    /// A key that was never issued (slot beyond the slab / far epoch).
    ForgeFar(u8),
}

pub struct IpqSubject {
    q: IndexedPriorityQueue<u8, u32>,
    /// Issued keys: (key object, user key, seq).
    issued: Vec<(InsertKey, u8, u32)>,
    alive: Vec<bool>,
    seq: u32,
}

impl IpqSubject {
    fn min(&self) -> Option<usize> {
        (0..self.issued.len())
            .filter(|i| self.alive[*i])
            .min_by_key(|i| (self.issued[*i].1, self.issued[*i].2))
    }
    fn extract_with(&mut self, key: InsertKey, what: &str) -> Result<String, String> {
        // The entry this key legitimately designates, if any: the live entry
        // whose issued key has exactly these raw parts.
        let raw = key.into_raw_parts();
        let target = (0..self.issued.len()).find(|i| self.alive[*i] && self.issued[*i].0.into_raw_parts() == raw);
        let got = self.q.extract(key);
        let exp = target.map(|i| (self.issued[i].1, self.issued[i].2));
        if got != exp {
            return Err(format!("{} returned {:?}, the model says {:?}", what, got, exp));
        }
        if let Some(i) = target {
            self.alive[i] = false;
        }
        Ok(format!("extract {:?}", got))
    }
}

impl Subject for IpqSubject {
    type Op = IpqOp;
    type Cfg = ();
    fn fresh(_: &()) -> Self {
        IpqSubject { q: IndexedPriorityQueue::new(), issued: vec![], alive: vec![], seq: 0 }
    }
    fn ops(&self) -> Vec<IpqOp> {
        let mut v = vec![IpqOp::Insert(0), IpqOp::Insert(1), IpqOp::Pull, IpqOp::Peek];
        for i in 0..self.issued.len() {
            v.push(IpqOp::Extract(i));
        }
        if self.issued.len() >= 2 {
            let n = self.issued.len();
            v.push(IpqOp::Forge(0, n - 1));
            v.push(IpqOp::Forge(n - 1, 0));
        }
        v.push(IpqOp::ForgeFar(0));
        v
    }
    fn apply(&mut self, op: &IpqOp) -> Result<String, String> {
        let r = match op {
            IpqOp::Insert(k) => {
                let key = self.q.insert(*k, self.seq);
                // A fresh key must not alias any key still designating a live entry.
                if (0..self.issued.len()).any(|i| self.alive[i] && self.issued[i].0 == key) {
                    return Err(format!("insert returned a key equal to the key of a live entry: {:?}", key));
                }
                self.issued.push((key, *k, self.seq));
                self.alive.push(true);
                self.seq += 1;
                Ok("ins".to_string())
            }
            IpqOp::Pull => {
                let m = self.min();
                let exp = m.map(|i| (self.issued[i].1, self.issued[i].2));
                let got = self.q.pull();
                if got != exp {
                    return Err(format!("pull returned {:?}, the model says {:?}", got, exp));
                }
                if let Some(i) = m {
                    self.alive[i] = false;
                }
                Ok(format!("pull {:?}", got))
            }
            IpqOp::Peek => {
                let m = self.min();
                let exp = m.map(|i| (self.issued[i].1, self.issued[i].2));
                let got = self.q.peek().map(|(k, v)| (*k, *v));
                let gotk = self.q.peek_key().copied();
                if got != exp || gotk != exp.map(|e| e.0) {
                    return Err(format!("peek/peek_key returned {:?}/{:?}, the model says {:?}", got, gotk, exp));
                }
                Ok(format!("peek {:?}", got))
            }
            IpqOp::Extract(i) => {
                let key = self.issued[*i].0;
                // A stale key (entry already gone) must not remove anything.
                if !self.alive[*i] {
                    let got = self.q.extract(key);
                    if got.is_some() {
                        return Err(format!("extract through the stale key #{} removed {:?}", i, got));
                    }
                    Ok("extract stale".to_string())
                } else {
                    self.extract_with(key, "extract")
                }
            }
            IpqOp::Forge(i, j) => {
                let (slab, _) = self.issued[*i].0.into_raw_parts();
                let (_, epoch) = self.issued[*j].0.into_raw_parts();
                self.extract_with(InsertKey::from_raw_parts(slab, epoch), "extract(forged)")
            }
            IpqOp::ForgeFar(_) => self.extract_with(InsertKey::from_raw_parts(1000, u64::MAX / 2), "extract(forged far)"),
        };
        let r = r?;
        let live = self.alive.iter().filter(|a| **a).count();
        if self.q.len() != live {
            return Err(format!("len() is {} but {} entries are live", self.q.len(), live));
        }
        Ok(r)
    }
    fn state_key(&self) -> String {
        let mut m: Vec<(u8, u32)> = (0..self.issued.len()).filter(|i| self.alive[*i]).map(|i| (self.issued[i].1, self.issued[i].2)).collect();
        m.sort();
        format!("{:?}/{}", m, self.issued.len())
    }
}

/// Applies an operation; a panic of the implementation is a mismatch like any other.
fn apply_caught<S: Subject>(s: &mut S, op: &S::Op) -> Result<String, String> {
    match std::panic::catch_unwind(std::panic::AssertUnwindSafe(|| s.apply(op))) {
        Ok(r) => r,
        Err(p) => {
            let m = p.downcast_ref::<&str>().map(|x| x.to_string()).or_else(|| p.downcast_ref::<String>().cloned()).unwrap_or_else(|| "?".into());
            Err(format!("the implementation panicked: {}", m))
        }
    }
}

/// Deterministic *regime* sequences: fill the keyed queue with n entries
/// (n around every power of two up to 4096), drain it in one of three ways,
/// refill it with m entries, then present every key ever issued: a stale key
/// must never remove anything, a live key removes exactly its own entry.
pub fn check_ipq_regimes() -> Outcome {
    let mut sizes: Vec<usize> = (1..=40).collect();
    for p in [64usize, 128, 256, 512, 1024, 2048, 4096] {
        sizes.extend([p - 1, p, p + 1]);
    }
    let mut traces = 0u64;
    let mut transitions = 0u64;
    let mut mismatch = None;
    'outer: for &n in &sizes {
        for drain in 0..3 {
            for &m in &[1usize, 3, n.min(70)] {
                let mut s = IpqSubject::fresh(&());
                let mut hist: Vec<String> = vec![format!("n={} drain={} m={}", n, drain, m)];
                let mut step = |s: &mut IpqSubject, op: IpqOp, hist: &mut Vec<String>| -> Result<(), String> {
                    transitions += 1;
                    match apply_caught(s, &op) {
                        Ok(_) => Ok(()),
                        Err(e) => {
                            hist.push(format!("{:?}", op));
                            Err(e)
                        }
                    }
                };
                let r: Result<(), String> = (|| {
                    for i in 0..n {
                        step(&mut s, IpqOp::Insert((i % 2) as u8), &mut hist)?;
                    }
                    match drain {
                        0 => {
                            for _ in 0..n {
                                step(&mut s, IpqOp::Pull, &mut hist)?;
                            }
                        }
                        1 => {
                            for i in 0..n {
                                step(&mut s, IpqOp::Extract(i), &mut hist)?;
                            }
                        }
                        _ => {
                            for i in (0..n).rev() {
                                step(&mut s, IpqOp::Extract(i), &mut hist)?;
                            }
                        }
                    }
                    for i in 0..m {
                        step(&mut s, IpqOp::Insert((i % 2) as u8), &mut hist)?;
                    }
                    // Every key ever issued, oldest first (stale ones first).
                    for i in 0..n + m {
                        step(&mut s, IpqOp::Extract(i), &mut hist)?;
                    }
                    step(&mut s, IpqOp::Pull, &mut hist)?;
                    Ok(())
                })();
                traces += 1;
                if let Err(e) = r {
                    mismatch = Some(crate::Mismatch { history: hist, msg: e });
                    break 'outer;
                }
            }
        }
    }
    // Churn at large sizes: n entries with many different keys (fixed pseudo-random sequence),
    // then rounds of pull / peek / insert / extract-of-an-old-live-key, a drain to a quarter,
    // and every key ever issued presented once more.
    if mismatch.is_none() {
        'churn: for &n in &[70usize, 530, 1030, 2100] {
            for seed in [1u32, 7, 13] {
                let mut s = IpqSubject::fresh(&());
                let mut hist: Vec<String> = vec![format!("churn n={} seed={}", n, seed)];
                let mut x: u32 = seed;
                let mut next = move || {
                    x = x.wrapping_mul(1_664_525).wrapping_add(1_013_904_223);
                    (x >> 16) as usize
                };
                let mut issued = 0usize;
                let mut ops: Vec<IpqOp> = vec![];
                for _ in 0..n {
                    ops.push(IpqOp::Insert((next() % 251) as u8));
                    issued += 1;
                }
                for round in 0..(n / 2 + 40) {
                    ops.push(IpqOp::Pull);
                    ops.push(IpqOp::Peek);
                    ops.push(IpqOp::Insert((next() % 251) as u8));
                    issued += 1;
                    if round % 3 == 0 {
                        ops.push(IpqOp::Extract(next() % issued));
                        ops.push(IpqOp::Peek);
                    }
                    if round % 5 == 0 {
                        ops.push(IpqOp::Insert((next() % 7) as u8));
                        issued += 1;
                    }
                }
                // Drain to less than a quarter, then use old keys of entries that may still be queued.
                for _ in 0..(n * 4 / 5) {
                    ops.push(IpqOp::Pull);
                }
                ops.push(IpqOp::Peek);
                for i in 0..issued {
                    ops.push(IpqOp::Extract(i));
                    if i % 16 == 0 {
                        ops.push(IpqOp::Peek);
                    }
                }
                ops.push(IpqOp::Pull);
                let mut failed = None;
                for op in &ops {
                    transitions += 1;
                    if let Err(e) = apply_caught(&mut s, op) {
                        hist.push(format!("{:?} (operation #{} of the churn sequence)", op, transitions));
                        failed = Some(e);
                        break;
                    }
                }
                traces += 1;
                if let Some(e) = failed {
                    mismatch = Some(crate::Mismatch { history: hist, msg: e });
                    break 'churn;
                }
            }
        }
    }
    // Sliding window: n entries inserted in non-decreasing key order, then every pull is followed
    // by the insertion of an entry larger than everything queued (the queue keeps its size and its
    // bottom row is rewritten again and again), then a drain.
    if mismatch.is_none() {
        'window: for &n in &[5usize, 36, 514, 601, 1025, 1030, 2051] {
            let mut s = IpqSubject::fresh(&());
            let mut hist: Vec<String> = vec![format!("sliding window n={}", n)];
            let mut ops: Vec<IpqOp> = (0..n).map(|i| IpqOp::Insert((i * 200 / n) as u8)).collect();
            for _ in 0..n + 3 {
                ops.push(IpqOp::Peek);
                ops.push(IpqOp::Pull);
                ops.push(IpqOp::Insert(255));
            }
            for _ in 0..n + 1 {
                ops.push(IpqOp::Pull);
            }
            let mut failed = None;
            for op in &ops {
                transitions += 1;
                if let Err(e) = apply_caught(&mut s, op) {
                    hist.push(format!("{:?} (operation #{})", op, transitions));
                    failed = Some(e);
                    break;
                }
            }
            traces += 1;
            if let Some(e) = failed {
                mismatch = Some(crate::Mismatch { history: hist, msg: e });
                break 'window;
            }
        }
    }
    // Shaped heaps: keys chosen by array position so that insertion in position order needs no
    // sifting (every key >= its parent's) and the path of smallest children leads from the root
    // to a chosen node: the parent of the last leaf, the last leaf itself, the leftmost and the
    // rightmost leaf. Then pull / insert / pull everything, for sizes around and beyond 512.
    if mismatch.is_none() {
        'shaped: for &n in &[9usize, 10, 33, 34, 513, 514, 515, 600, 601, 1023, 1024, 1025, 1030, 1031, 2050, 2051] {
            let last = n - 1;
            let targets = [if n >= 3 { (last - 1) / 2 } else { 0 }, last, n / 2, (n - 2).max(0), {
                let mut i = 0usize;
                while 2 * i + 1 < n {
                    i = 2 * i + 1;
                }
                i
            }];
            for (ti, &target) in targets.iter().enumerate() {
                let mut on_path = vec![false; n];
                let mut i = target;
                loop {
                    on_path[i] = true;
                    if i == 0 {
                        break;
                    }
                    i = (i - 1) / 2;
                }
                // The children of the target count as "on the path" as well (smaller than a sibling's subtree).
                if 2 * target + 1 < n {
                    on_path[2 * target + 1] = true;
                }
                let depth = |mut i: usize| {
                    let mut d = 0u8;
                    while i > 0 {
                        i = (i - 1) / 2;
                        d += 1;
                    }
                    d
                };
                for follow in 0..6usize {
                    let mut s = IpqSubject::fresh(&());
                    let mut hist: Vec<String> = vec![format!("shaped n={} target#{}={} follow={}", n, ti, target, follow)];
                    let mut ops: Vec<IpqOp> = (0..n).map(|i| IpqOp::Insert(depth(i) * 2 + if on_path[i] { 0 } else { 1 })).collect();
                    ops.push(IpqOp::Pull);
                    ops.push(IpqOp::Peek);
                    match follow {
                        0 => ops.push(IpqOp::Insert(0)),
                        1 => {
                            ops.push(IpqOp::Pull);
                            ops.push(IpqOp::Insert(3));
                        }
                        2 => {
                            ops.push(IpqOp::Extract(n / 3));
                            ops.push(IpqOp::Insert(40));
                        }
                        // Large keys stay at the bottom (next to the node the pull has just filled).
                        3 => ops.push(IpqOp::Insert(255)),
                        4 => {
                            ops.push(IpqOp::Insert(254));
                            ops.push(IpqOp::Insert(255));
                        }
                        _ => {
                            ops.push(IpqOp::Insert(255));
                            ops.push(IpqOp::Pull);
                            ops.push(IpqOp::Insert(255));
                        }
                    }
                    for k in 0..n + 2 {
                        ops.push(IpqOp::Pull);
                        if k % 64 == 0 {
                            ops.push(IpqOp::Peek);
                        }
                    }
                    let mut failed = None;
                    for op in &ops {
                        transitions += 1;
                        if let Err(e) = apply_caught(&mut s, op) {
                            hist.push(format!("{:?}", op));
                            failed = Some(e);
                            break;
                        }
                    }
                    traces += 1;
                    if let Some(e) = failed {
                        mismatch = Some(crate::Mismatch { history: hist, msg: e });
                        break 'shaped;
                    }
                }
            }
        }
    }
    Outcome {
        name: "indexed_priority_queue_regimes",
        states: sizes.len() as u64,
        transitions,
        traces,
        depth: 4097,
        distinct_observations: sizes.len() as u64,
        mismatch,
        sample: serde_json::json!({"structure": "indexed_priority_queue_regimes", "sizes": "1..40 and 2^k-1, 2^k, 2^k+1 for k=6..12", "drains": ["pull all", "extract in order", "extract in reverse"]}),
    }
}

/// The same for the plain queue: after any drain, insertion order among equal
/// keys must still decide.
pub fn check_pq_regimes() -> Outcome {
    let mut sizes: Vec<usize> = (1..=40).collect();
    for p in [64usize, 128, 256, 512, 1024, 2048, 4096] {
        sizes.extend([p - 1, p, p + 1]);
    }
    let mut traces = 0u64;
    let mut transitions = 0u64;
    let mut mismatch = None;
    'outer: for &n in &sizes {
        for leave in [0usize, 1, 2] {
            let mut s = PqSubject::fresh(&());
            let mut hist = vec![format!("n={} leave={}", n, leave)];
            let r: Result<(), String> = (|| {
                let mut ops: Vec<PqOp> = vec![];
                for i in 0..n {
                    ops.push(PqOp::Insert((i % 3) as u8));
                }
                for _ in 0..n.saturating_sub(leave) {
                    ops.push(PqOp::Pull);
                }
                for i in 0..6 {
                    ops.push(PqOp::Insert((i % 2) as u8));
                    ops.push(PqOp::Peek);
                }
                for _ in 0..8 + leave {
                    ops.push(PqOp::Pull);
                }
                for op in ops {
                    transitions += 1;
                    if let Err(e) = apply_caught(&mut s, &op) {
                        hist.push(format!("{:?}", op));
                        return Err(e);
                    }
                }
                Ok(())
            })();
            traces += 1;
            if let Err(e) = r {
                mismatch = Some(crate::Mismatch { history: hist, msg: e });
                break 'outer;
            }
        }
    }
    Outcome {
        name: "priority_queue_regimes",
        states: sizes.len() as u64,
        transitions,
        traces,
        depth: 4097,
        distinct_observations: sizes.len() as u64,
        mismatch,
        sample: serde_json::json!({"structure": "priority_queue_regimes", "sizes": "1..40 and 2^k-1, 2^k, 2^k+1 for k=6..12"}),
    }
}

pub fn check_ipq(depth: usize) -> Outcome {
    explore::<IpqSubject>("indexed_priority_queue", &[()], depth)
}
