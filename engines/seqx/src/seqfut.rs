//! C07 (mechanism part): the compound future that runs same-time, same-origin
//! actions must poll them strictly one after another: action j+1 is not
//! polled before action j completed, every action completes exactly once, and
//! the compound future completes exactly when the last one does.
//!
//! Exhaustive over: number of sub-futures 1..=n, number of `Pending` answers
//! of each sub-future before it completes (0..=2), and whether the wake-up of
//! a pending sub-future comes before the next poll (it always does here: the
//! harness re-polls until completion, which also covers spurious polls).

use std::future::Future;
use std::pin::Pin;
use std::sync::{Arc, Mutex};
use std::task::{Context, Poll, RawWaker, RawWakerVTable, Waker};

use crate::bound::seq_futures::SeqFuture;
use crate::{Mismatch, Outcome};

struct Scripted {
    id: usize,
    pending_left: usize,
    log: Arc<Mutex<Vec<(usize, bool)>>>,
    done: bool,
}

impl Future for Scripted {
    type Output = ();
    fn poll(mut self: Pin<&mut Self>, _cx: &mut Context<'_>) -> Poll<()> {
        assert!(!self.done, "sub-future polled after completion");
        if self.pending_left == 0 {
            self.done = true;
            self.log.lock().unwrap().push((self.id, true));
            Poll::Ready(())
        } else {
            self.pending_left -= 1;
            self.log.lock().unwrap().push((self.id, false));
            Poll::Pending
        }
    }
}

fn noop_waker() -> Waker {
    fn clone(_: *const ()) -> RawWaker {
        RawWaker::new(std::ptr::null(), &VT)
    }
    fn noop(_: *const ()) {}
    static VT: RawWakerVTable = RawWakerVTable::new(clone, noop, noop, noop);
    unsafe { Waker::from_raw(RawWaker::new(std::ptr::null(), &VT)) }
}

pub fn check(max_n: usize) -> Outcome {
    let mut traces = 0u64;
    let mut transitions = 0u64;
    let mut states = std::collections::BTreeSet::new();
    let mut mismatch = None;
    let mut sample = serde_json::json!(null);
    'outer: for n in 1..=max_n {
        // All vectors in {0,1,2}^n.
        let total = 3usize.pow(n as u32);
        for code in 0..total {
            let mut c = code;
            let pend: Vec<usize> = (0..n)
                .map(|_| {
                    let v = c % 3;
                    c /= 3;
                    v
                })
                .collect();
            let log = Arc::new(Mutex::new(Vec::new()));
            let mut sf = SeqFuture::new();
            for (i, p) in pend.iter().enumerate() {
                sf.push(Box::pin(Scripted { id: i, pending_left: *p, log: log.clone(), done: false }));
            }
            let waker = noop_waker();
            let mut cx = Context::from_waker(&waker);
            let mut polls = 0;
            let mut ready_at = None;
            let r = std::panic::catch_unwind(std::panic::AssertUnwindSafe(|| {
                let mut sf = Box::pin(sf);
                while polls < 3 * n + 3 {
                    polls += 1;
                    if sf.as_mut().poll(&mut cx).is_ready() {
                        ready_at = Some(polls);
                        break;
                    }
                }
            }));
            traces += 1;
            let l = log.lock().unwrap().clone();
            transitions += l.len() as u64;
            states.insert(format!("{:?}", l));
            let mut err = None;
            if let Err(p) = r {
                let m = p.downcast_ref::<&str>().map(|s| s.to_string()).or_else(|| p.downcast_ref::<String>().cloned()).unwrap_or_default();
                err = Some(format!("panic while polling: {}", m));
            }
            // Oracle: strictly sequential.
            let mut completed = vec![false; n];
            for (id, ready) in &l {
                if (0..*id).any(|j| !completed[j]) && err.is_none() {
                    err = Some(format!("action {} polled before action {} completed (poll log {:?})", id, (0..*id).find(|j| !completed[*j]).unwrap(), l));
                }
                if *ready {
                    completed[*id] = true;
                }
            }
            if err.is_none() && !completed.iter().all(|c| *c) {
                err = Some(format!("compound future stopped with actions incomplete {:?} (poll log {:?})", completed, l));
            }
            let expected_polls = pend.iter().sum::<usize>() + 1;
            if err.is_none() && ready_at != Some(expected_polls) {
                err = Some(format!("compound future completed at poll {:?}, expected {} (pending counts {:?})", ready_at, expected_polls, pend));
            }
            if code == total / 2 {
                sample = serde_json::json!({"structure": "seq_future", "pending_answers_per_action": pend, "poll_log": format!("{:?}", l)});
            }
            if let Some(e) = err {
                mismatch = Some(Mismatch { history: vec![format!("pending answers per action {:?}", pend)], msg: e });
                break 'outer;
            }
        }
    }
    Outcome {
        name: "seq_future",
        states: states.len() as u64,
        transitions,
        traces,
        depth: max_n,
        distinct_observations: states.len() as u64,
        mismatch,
        sample,
    }
}
