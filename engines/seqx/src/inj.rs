//! C04 (data-structure part): the injector queue of the multi-threaded
//! executor must never hide a task: `is_empty()` is true exactly when no task
//! is stored, and every task inserted is handed out by `pop_bucket` exactly
//! once (order is unspecified). Bucket capacity 2, so that several buckets
//! exist within the depth bound.

use crate::bound::injector::{Bucket, Injector};
use crate::seq::{explore, Subject};
use crate::Outcome;

#[derive(Clone, Debug)]
pub enum InjOp {
    Insert,
    /// Push a bucket of 1 or 2 fresh tasks.
    PushBucket(usize),
    Pop,
}

pub struct InjSubject {
    inj: Injector<u32, 2>,
    model: Vec<u32>,
    n: u32,
}

impl Subject for InjSubject {
    type Op = InjOp;
    type Cfg = ();
    fn fresh(_: &()) -> Self {
        InjSubject { inj: Injector::new(), model: vec![], n: 0 }
    }
    fn ops(&self) -> Vec<InjOp> {
        vec![InjOp::Insert, InjOp::PushBucket(1), InjOp::PushBucket(2), InjOp::Pop]
    }
    fn apply(&mut self, op: &InjOp) -> Result<String, String> {
        let r = match op {
            InjOp::Insert => {
                self.inj.insert_task(self.n);
                self.model.push(self.n);
                self.n += 1;
                "ins".to_string()
            }
            InjOp::PushBucket(k) => {
                let items: Vec<u32> = (0..*k as u32).map(|j| self.n + j).collect();
                self.n += *k as u32;
                self.model.extend(items.iter().copied());
                self.inj.push_bucket(Bucket::from_iter(items));
                format!("bucket {}", k)
            }
            InjOp::Pop => match self.inj.pop_bucket() {
                Some(b) => {
                    let got: Vec<u32> = b.into_iter().collect();
                    if got.is_empty() {
                        return Err("pop_bucket returned an empty bucket".to_string());
                    }
                    for g in &got {
                        match self.model.iter().position(|m| m == g) {
                            Some(p) => {
                                self.model.remove(p);
                            }
                            None => return Err(format!("pop_bucket returned task {} which is not stored (or was already handed out)", g)),
                        }
                    }
                    format!("pop {}", got.len())
                }
                None => {
                    if !self.model.is_empty() {
                        return Err(format!("pop_bucket returned None although tasks {:?} are stored", self.model));
                    }
                    "pop none".to_string()
                }
            },
        };
        if self.inj.is_empty() != self.model.is_empty() {
            return Err(format!("is_empty() is {} although the stored tasks are {:?}", self.inj.is_empty(), self.model));
        }
        Ok(r)
    }
    fn state_key(&self) -> String {
        format!("{}", self.model.len())
    }
}

pub fn check(depth: usize) -> Outcome {
    explore::<InjSubject>("injector", &[()], depth)
}
