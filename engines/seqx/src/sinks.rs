//! C17: EventBuffer and EventSlot against VecDeque / Option.

use std::collections::VecDeque;

use nexosim::ports::{EventBuffer, EventSink, EventSinkStream, EventSinkWriter, EventSlot};

use crate::seq::{explore, Subject};
use crate::Outcome;

#[derive(Clone, Debug)]
pub enum SinkOp {
    Write1,
    Write2,
    Next,
    Drain,
    Open,
    Close,
}

pub struct BufSubject {
    buf: EventBuffer<u32>,
    w1: <EventBuffer<u32> as EventSink<u32>>::Writer,
    w2: <EventBuffer<u32> as EventSink<u32>>::Writer,
    cap: usize,
    model: VecDeque<u32>,
    open: bool,
    n: u32,
}

impl Subject for BufSubject {
    type Op = SinkOp;
    /// (capacity, initially closed)
    type Cfg = (usize, bool);
    fn fresh(cfg: &(usize, bool)) -> Self {
        // Capacity 0 stands for the default constructors (documented default capacity).
        let buf = match (cfg.0, cfg.1) {
            (0, false) => EventBuffer::new(),
            (0, true) => EventBuffer::new_closed(),
            (c, true) => EventBuffer::with_capacity_closed(c),
            (c, false) => EventBuffer::with_capacity(c),
        };
        let w1 = buf.writer();
        let w2 = w1.clone();
        BufSubject { buf, w1, w2, cap: if cfg.0 == 0 { EventBuffer::<u32>::DEFAULT_CAPACITY } else { cfg.0 }, model: VecDeque::new(), open: !cfg.1, n: 0 }
    }
    fn ops(&self) -> Vec<SinkOp> {
        vec![SinkOp::Write1, SinkOp::Write2, SinkOp::Next, SinkOp::Drain, SinkOp::Open, SinkOp::Close]
    }
    fn apply(&mut self, op: &SinkOp) -> Result<String, String> {
        match op {
            SinkOp::Write1 | SinkOp::Write2 => {
                let v = self.n;
                self.n += 1;
                if matches!(op, SinkOp::Write1) {
                    self.w1.write(v)
                } else {
                    self.w2.write(v)
                }
                if self.open {
                    if self.model.len() == self.cap {
                        self.model.pop_front();
                    }
                    self.model.push_back(v);
                }
                Ok("w".into())
            }
            SinkOp::Next => {
                let got = self.buf.next();
                let exp = self.model.pop_front();
                if got != exp {
                    return Err(format!("next returned {:?}, the model says {:?}", got, exp));
                }
                Ok(format!("next {:?}", got))
            }
            SinkOp::Drain => {
                let got: Vec<u32> = (&mut self.buf).collect();
                let exp: Vec<u32> = self.model.drain(..).collect();
                if got != exp {
                    return Err(format!("draining returned {:?}, the model says {:?}", got, exp));
                }
                Ok(format!("drain {:?}", got))
            }
            SinkOp::Open => {
                self.buf.open();
                self.open = true;
                Ok("open".into())
            }
            SinkOp::Close => {
                self.buf.close();
                self.open = false;
                Ok("close".into())
            }
        }
    }
    fn state_key(&self) -> String {
        format!("{:?}/{}/{}", self.model, self.open, self.cap)
    }
}

pub struct SlotSubject {
    slot: EventSlot<u32>,
    w1: <EventSlot<u32> as EventSink<u32>>::Writer,
    w2: <EventSlot<u32> as EventSink<u32>>::Writer,
    model: Option<u32>,
    open: bool,
    n: u32,
}

impl Subject for SlotSubject {
    type Op = SinkOp;
    type Cfg = bool;
    fn fresh(closed: &bool) -> Self {
        let slot = if *closed { EventSlot::new_closed() } else { EventSlot::new() };
        let w1 = slot.writer();
        let w2 = w1.clone();
        SlotSubject { slot, w1, w2, model: None, open: !*closed, n: 0 }
    }
    fn ops(&self) -> Vec<SinkOp> {
        vec![SinkOp::Write1, SinkOp::Write2, SinkOp::Next, SinkOp::Drain, SinkOp::Open, SinkOp::Close]
    }
    fn apply(&mut self, op: &SinkOp) -> Result<String, String> {
        match op {
            SinkOp::Write1 | SinkOp::Write2 => {
                let v = self.n;
                self.n += 1;
                if matches!(op, SinkOp::Write1) {
                    self.w1.write(v)
                } else {
                    self.w2.write(v)
                }
                if self.open {
                    self.model = Some(v);
                }
                Ok("w".into())
            }
            SinkOp::Next => {
                let got = self.slot.next();
                let exp = self.model.take();
                if got != exp {
                    return Err(format!("next returned {:?}, the model says {:?}", got, exp));
                }
                Ok(format!("next {:?}", got))
            }
            SinkOp::Drain => {
                let got: Vec<u32> = (&mut self.slot).collect();
                let exp: Vec<u32> = self.model.take().into_iter().collect();
                if got != exp {
                    return Err(format!("draining returned {:?}, the model says {:?}", got, exp));
                }
                Ok(format!("drain {:?}", got))
            }
            SinkOp::Open => {
                self.slot.open();
                self.open = true;
                Ok("open".into())
            }
            SinkOp::Close => {
                self.slot.close();
                self.open = false;
                Ok("close".into())
            }
        }
    }
    fn state_key(&self) -> String {
        format!("{:?}/{}", self.model, self.open)
    }
}

pub fn check(depth: usize) -> Vec<Outcome> {
    let cfgs: Vec<(usize, bool)> = vec![(1, false), (2, false), (3, false), (1, true), (2, true), (0, false), (0, true)];
    vec![
        explore::<BufSubject>("event_buffer", &cfgs, depth),
        explore::<SlotSubject>("event_slot", &[false, true], depth + 1),
    ]
}
