//! C17: EventBuffer and EventSlot against VecDeque / Option.

use std::collections::VecDeque;

use nexosim::ports::{EventBuffer, EventSink, EventSinkStream, EventSinkWriter, EventSlot};

use crate::seq::{explore, Subject};
use crate::Outcome;

/// Event types: an ordinary value, a zero-sized type and a large one.
pub trait Payload: Clone + PartialEq + std::fmt::Debug + Send + 'static {
    fn make(n: u32) -> Self;
    const NAME: &'static str;
}
impl Payload for u32 {
    fn make(n: u32) -> Self {
        n
    }
    const NAME: &'static str = "u32";
}
impl Payload for () {
    fn make(_: u32) -> Self {}
    const NAME: &'static str = "unit";
}
#[derive(Clone, PartialEq, Debug)]
pub struct Big(u32, [u64; 31]);
impl Payload for Big {
    fn make(n: u32) -> Self {
        Big(n, [n as u64; 31])
    }
    const NAME: &'static str = "big";
}

#[derive(Clone, Debug)]
pub enum SinkOp {
    Write1,
    Write2,
    Next,
    Drain,
    Open,
    Close,
}

pub struct BufSubject<P: Payload> {
    buf: EventBuffer<P>,
    w1: <EventBuffer<P> as EventSink<P>>::Writer,
    w2: <EventBuffer<P> as EventSink<P>>::Writer,
    cap: usize,
    model: VecDeque<P>,
    open: bool,
    n: u32,
}

impl<P: Payload> Subject for BufSubject<P> {
    type Op = SinkOp;
    /// (capacity, initially closed)
    type Cfg = (usize, bool);
    fn fresh(cfg: &(usize, bool)) -> Self {
        // Capacity 0 stands for the default constructors (documented default capacity).
        let buf = match (cfg.0, cfg.1) {
            (0, false) => EventBuffer::new(),
            (0, true) => EventBuffer::new_closed(),
            (c, true) => EventBuffer::with_capacity_closed(c),
            (c, false) => EventBuffer::with_capacity(c),
        };
        let w1 = buf.writer();
        let w2 = w1.clone();
        BufSubject { buf, w1, w2, cap: if cfg.0 == 0 { EventBuffer::<P>::DEFAULT_CAPACITY } else { cfg.0 }, model: VecDeque::new(), open: !cfg.1, n: 0 }
    }
    fn ops(&self) -> Vec<SinkOp> {
        vec![SinkOp::Write1, SinkOp::Write2, SinkOp::Next, SinkOp::Drain, SinkOp::Open, SinkOp::Close]
    }
    fn apply(&mut self, op: &SinkOp) -> Result<String, String> {
        match op {
            SinkOp::Write1 | SinkOp::Write2 => {
                let v = P::make(self.n);
                self.n += 1;
                if matches!(op, SinkOp::Write1) {
                    self.w1.write(v.clone())
                } else {
                    self.w2.write(v.clone())
                }
                if self.open {
                    if self.model.len() == self.cap {
                        self.model.pop_front();
                    }
                    self.model.push_back(v);
                }
                Ok("w".into())
            }
            SinkOp::Next => {
                let got = self.buf.next();
                let exp = self.model.pop_front();
                if got != exp {
                    return Err(format!("next returned {:?}, the model says {:?}", got, exp));
                }
                Ok(format!("next {:?}", got))
            }
            SinkOp::Drain => {
                let got: Vec<P> = (&mut self.buf).collect();
                let exp: Vec<P> = self.model.drain(..).collect();
                if got != exp {
                    return Err(format!("draining returned {:?}, the model says {:?}", got, exp));
                }
                Ok(format!("drain {:?}", got))
            }
            SinkOp::Open => {
                self.buf.open();
                self.open = true;
                Ok("open".into())
            }
            SinkOp::Close => {
                self.buf.close();
                self.open = false;
                Ok("close".into())
            }
        }
    }
    fn state_key(&self) -> String {
        format!("{:?}/{}/{}", self.model, self.open, self.cap)
    }
}

pub struct SlotSubject<P: Payload> {
    slot: EventSlot<P>,
    w1: <EventSlot<P> as EventSink<P>>::Writer,
    w2: <EventSlot<P> as EventSink<P>>::Writer,
    model: Option<P>,
    open: bool,
    n: u32,
}

impl<P: Payload> Subject for SlotSubject<P> {
    type Op = SinkOp;
    type Cfg = bool;
    fn fresh(closed: &bool) -> Self {
        let slot = if *closed { EventSlot::new_closed() } else { EventSlot::new() };
        let w1 = slot.writer();
        let w2 = w1.clone();
        SlotSubject { slot, w1, w2, model: None, open: !*closed, n: 0 }
    }
    fn ops(&self) -> Vec<SinkOp> {
        vec![SinkOp::Write1, SinkOp::Write2, SinkOp::Next, SinkOp::Drain, SinkOp::Open, SinkOp::Close]
    }
    fn apply(&mut self, op: &SinkOp) -> Result<String, String> {
        match op {
            SinkOp::Write1 | SinkOp::Write2 => {
                let v = P::make(self.n);
                self.n += 1;
                if matches!(op, SinkOp::Write1) {
                    self.w1.write(v.clone())
                } else {
                    self.w2.write(v.clone())
                }
                if self.open {
                    self.model = Some(v);
                }
                Ok("w".into())
            }
            SinkOp::Next => {
                let got = self.slot.next();
                let exp = self.model.take();
                if got != exp {
                    return Err(format!("next returned {:?}, the model says {:?}", got, exp));
                }
                Ok(format!("next {:?}", got))
            }
            SinkOp::Drain => {
                let got: Vec<P> = (&mut self.slot).collect();
                let exp: Vec<P> = self.model.take().into_iter().collect();
                if got != exp {
                    return Err(format!("draining returned {:?}, the model says {:?}", got, exp));
                }
                Ok(format!("drain {:?}", got))
            }
            SinkOp::Open => {
                self.slot.open();
                self.open = true;
                Ok("open".into())
            }
            SinkOp::Close => {
                self.slot.close();
                self.open = false;
                Ok("close".into())
            }
        }
    }
    fn state_key(&self) -> String {
        format!("{:?}/{}", self.model, self.open)
    }
}

pub fn check(depth: usize) -> Vec<Outcome> {
    let cfgs: Vec<(usize, bool)> = vec![(1, false), (2, false), (3, false), (1, true), (2, true), (0, false), (0, true)];
    vec![
        explore::<BufSubject<u32>>("event_buffer", &cfgs, depth),
        explore::<SlotSubject<u32>>("event_slot", &[false, true], depth + 1),
        explore::<BufSubject<()>>("event_buffer<unit>", &cfgs, depth - 1),
        explore::<SlotSubject<()>>("event_slot<unit>", &[false, true], depth - 1),
        explore::<BufSubject<Big>>("event_buffer<big>", &cfgs, depth - 2),
        explore::<SlotSubject<Big>>("event_slot<big>", &[false, true], depth - 1),
    ]
}
