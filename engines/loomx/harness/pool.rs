//! C04 (memory-model part): the hand-off between a thread that injects a task
//! and the last worker going idle. `activate_worker` finds no idle worker and
//! only performs a Release RMW; the last active worker's deactivation attempt
//! (Release RMW + Acquire fence) must then make the injected task visible, so
//! that the pool is never declared idle with a task left in the injector.

use loom::sync::Arc;
use loom::thread;

use crate::executor::mt_executor::injector::Injector;
use crate::executor::mt_executor::pool_manager::PoolManager;

use super::{outcome, Item};

type Inj = Injector<u32, 4>;

fn make_pool(n: usize) -> PoolManager {
    let mut stealers = vec![];
    let mut unparkers = vec![];
    let mut keep = vec![];
    for _ in 0..n {
        let w = st3::fifo::Worker::<crate::executor::task::Runnable>::new(4);
        stealers.push(w.stealer());
        let p = parking::Parker::new();
        unparkers.push(p.unparker());
        keep.push((w, p));
    }
    // The local queues and parkers are leaked on purpose: only the stealers
    // and unparkers are handed to the manager, as in `Executor::new`.
    std::mem::forget(keep);
    PoolManager::new(n, stealers.into_boxed_slice(), unparkers.into_boxed_slice())
}

/// A worker's idle protocol as in `run_local_worker` (reduced to the
/// pool-manager / injector interaction).
fn worker_loop(pm: &PoolManager, inj: &Inj, id: usize, rounds: usize) -> (usize, bool) {
    let mut processed = 0;
    for _ in 0..rounds {
        if pm.try_set_worker_inactive(id) {
            // Parked: a later `activate_worker` would unpark this worker.
            return (processed, false);
        } else if inj.is_empty() {
            pm.set_all_workers_inactive();
            return (processed, true);
        } else {
            pm.begin_worker_search();
            if let Some(b) = inj.pop_bucket() {
                processed += b.into_iter().count();
            }
            pm.end_worker_search();
        }
    }
    (processed, false)
}

/// The situation the protocol is designed for: an *active worker* pushes tasks
/// to the injector (local queue overflow), cannot activate anybody because all
/// workers are busy, and later goes through the idle protocol itself. Whoever
/// deactivates last must see every task pushed before by any worker.
fn pool_body(workers: usize, pushers: usize) {
    let pm = Arc::new(make_pool(workers));
    let inj: Arc<Inj> = Arc::new(Injector::new());
    pm.set_all_workers_active();
    let mut hs = vec![];
    for id in 0..workers {
        let pm = pm.clone();
        let inj = inj.clone();
        hs.push(thread::spawn(move || {
            if id < pushers {
                inj.insert_task(id as u32);
                if pm.searching_worker_count() == 0 {
                    pm.activate_worker_relaxed();
                }
            }
            worker_loop(&pm, &inj, id, 3)
        }));
    }
    let mut processed = 0;
    let mut declared_idle = false;
    for h in hs {
        let (p, d) = h.join().unwrap();
        processed += p;
        declared_idle |= d;
    }
    let left = !inj.is_empty();
    let idle = pm.pool_is_idle();
    assert!(
        !(left && idle),
        "[quiescence] the pool was declared idle (the executor would return) while a task pushed by a worker is still in the injector"
    );
    if declared_idle && idle {
        assert_eq!(processed, pushers, "[quiescence] the pool went idle after {} of {} injected tasks were taken", processed, pushers);
    }
    outcome(format!("processed={} idle={} left={} declared={}", processed, idle, left, declared_idle));
}

pub fn c04() -> Vec<Item> {
    vec![
        Item::new("pool/2workers/1pusher", 3, 5, || pool_body(2, 1)),
        Item::new("pool/2workers/2pushers", 3, 4, || pool_body(2, 2)),
        Item::new("pool/3workers/1pusher", 2, 3, || pool_body(3, 1)),
    ]
}
