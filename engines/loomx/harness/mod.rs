//! Engine L: harness compiled inside the loom mirror of nexosim. Each scenario
//! is explored by loom (all interleavings and C11 memory-model outcomes within
//! a preemption bound) in a child process; the parent aggregates.

pub mod cellq;
pub mod pool;
pub mod task;

use std::collections::BTreeSet;
use std::process::exit;
use std::sync::atomic::{AtomicU64, Ordering};
use std::sync::{Arc, Mutex};

use serde_json::{json, Value};

pub static ITER: AtomicU64 = AtomicU64::new(0);
pub static OUTCOMES: Mutex<BTreeSet<String>> = Mutex::new(BTreeSet::new());

pub fn outcome(s: String) {
    OUTCOMES.lock().unwrap_or_else(|e| e.into_inner()).insert(s);
}

pub struct Item {
    pub name: String,
    pub body: Arc<dyn Fn() + Send + Sync>,
    pub pb_quick: usize,
    pub pb_thorough: usize,
    /// Only run in the thorough tier.
    pub thorough_only: bool,
    /// The body runs its own loom models (one per program).
    pub raw: bool,
}

impl Item {
    pub fn new(name: impl Into<String>, pbq: usize, pbt: usize, body: impl Fn() + Send + Sync + 'static) -> Self {
        Item { name: name.into(), body: Arc::new(body), pb_quick: pbq, pb_thorough: pbt, thorough_only: false, raw: false }
    }
    pub fn raw(mut self) -> Self {
        self.raw = true;
        self
    }
    pub fn thorough(mut self) -> Self {
        self.thorough_only = true;
        self
    }
}

fn items(prop: &str) -> Option<Vec<Item>> {
    Some(match prop {
        "C04" => pool::c04(),
        "C05" => task::c05(),
        "C12" => cellq::c12(),
        "C13" => task::c13(),
        "C14" => cellq::c14(),
        "C15" => cellq::c15(),
        _ => return None,
    })
}

pub fn main() {
    let args: Vec<String> = std::env::args().collect();
    if args.len() < 3 {
        eprintln!("usage: loomx check <PROP> --tier T --out F | loomx one <PROP> <tier> <idx> <budget_s> | loomx replay <file>");
        exit(2);
    }
    crate::verif::set_spin_hint(Some(|| loom::thread::yield_now()));
    match args[1].as_str() {
        "one" => {
            let its = items(&args[2]).unwrap_or_else(|| exit(2));
            let tier = &args[3];
            let idx: usize = args[4].parse().unwrap();
            let budget: f64 = args[5].parse().unwrap();
            let it = &its[idx];
            let pb = if tier == "quick" { it.pb_quick } else { it.pb_thorough };
            let mut b = loom::model::Builder::new();
            b.preemption_bound = Some(pb);
            b.max_branches = 200_000;
            b.max_duration = Some(std::time::Duration::from_secs_f64(budget));
            let body = it.body.clone();
            let t0 = std::time::Instant::now();
            if it.raw {
                body();
            } else {
                b.check(move || {
                    ITER.fetch_add(1, Ordering::Relaxed);
                    body();
                });
            }
            let capped = t0.elapsed().as_secs_f64() >= budget;
            println!(
                "{}",
                json!({"scenario": it.name, "preemption_bound": pb, "executions": ITER.load(Ordering::Relaxed),
                    "distinct_outcomes": OUTCOMES.lock().unwrap().len(), "capped": capped, "wall_s": t0.elapsed().as_secs_f64()})
            );
            exit(0);
        }
        "replay" => {
            // A loom failure is reproduced by re-running its scenario (the
            // exploration is deterministic).
            let text = std::fs::read_to_string(&args[2]).unwrap_or_else(|_| exit(2));
            let js: Value = serde_json::from_str(&text).unwrap();
            let prop = js["property"].as_str().unwrap().to_string();
            let name = js["scenario"].as_str().unwrap().to_string();
            let tier = js["tier"].as_str().unwrap_or("quick").to_string();
            let its = items(&prop).unwrap_or_else(|| exit(2));
            let Some(idx) = its.iter().position(|i| i.name == name) else { exit(2) };
            let exe = std::env::current_exe().unwrap();
            let o = std::process::Command::new(&exe).args(["one", &prop, &tier, &idx.to_string(), "600"]).output().unwrap();
            if o.status.success() {
                println!("replay: property held on every execution of this scenario");
                exit(0);
            }
            println!("{}", tail(&String::from_utf8_lossy(&o.stderr), 1500));
            println!("VIOLATION property={} replay={}", prop, args[2]);
            exit(1);
        }
        "check" => {}
        _ => exit(2),
    }
    let prop = args[2].clone();
    let mut tier = "quick".to_string();
    let mut out = None;
    let mut replays = "/verif/replays".to_string();
    let mut i = 3;
    while i + 1 < args.len() {
        match args[i].as_str() {
            "--tier" => tier = args[i + 1].clone(),
            "--out" => out = Some(args[i + 1].clone()),
            "--replays" => replays = args[i + 1].clone(),
            _ => {}
        }
        i += 2;
    }
    let Some(its) = items(&prop) else {
        eprintln!("loomx: unknown property {}", prop);
        exit(2)
    };
    let t0 = std::time::Instant::now();
    let budget: f64 = std::env::var("VX_L_BUDGET").ok().and_then(|s| s.parse().ok()).unwrap_or(if tier == "quick" { 24.0 } else { 300.0 });
    let jobs: usize = std::env::var("VX_JOBS").ok().and_then(|s| s.parse().ok()).unwrap_or(16);
    let exe = std::env::current_exe().unwrap();
    let selected: Vec<usize> = (0..its.len()).filter(|i| tier != "quick" || !its[*i].thorough_only).collect();
    let n = selected.len();
    // The whole check takes about twice the per-scenario budget at most: with more scenarios
    // than parallel jobs, each scenario gets a proportionally smaller share.
    let budget = budget.min(budget * 2.0 * jobs as f64 / n.max(1) as f64).max(3.0);
    let next = std::sync::atomic::AtomicUsize::new(0);
    let results: Mutex<Vec<Option<Value>>> = Mutex::new(vec![None; n]);
    std::thread::scope(|s| {
        for _ in 0..jobs.min(n.max(1)) {
            s.spawn(|| loop {
                let k = next.fetch_add(1, Ordering::Relaxed);
                if k >= n {
                    break;
                }
                let i = selected[k];
                let o = std::process::Command::new(&exe).env("RUST_BACKTRACE", "0").args(["one", &prop, &tier, &i.to_string(), &format!("{}", budget)]).output();
                let v = match o {
                    Ok(o) if o.status.success() => {
                        let line = o.stdout.split(|b| *b == b'\n').filter(|l| !l.is_empty()).last().unwrap_or(b"null").to_vec();
                        serde_json::from_slice::<Value>(&line).unwrap_or(Value::Null)
                    }
                    Ok(o) => {
                        // Keep the panic messages, not the backtraces.
                        let err = String::from_utf8_lossy(&o.stderr).to_string();
                        let lines: Vec<&str> = err.lines().collect();
                        let mut msg = vec![];
                        for (k, l) in lines.iter().enumerate() {
                            if l.contains("panicked at") {
                                msg.push(l.to_string());
                                if let Some(n) = lines.get(k + 1) {
                                    msg.push(n.to_string());
                                }
                                if let Some(n) = lines.get(k + 2) {
                                    if n.starts_with("  ") || n.starts_with(" ") {
                                        msg.push(n.to_string());
                                    }
                                }
                            }
                            if msg.len() > 8 {
                                break;
                            }
                        }
                        if msg.is_empty() {
                            msg.push(tail(&err, 600));
                        }
                        json!({"scenario": its[i].name, "failed": true, "exit": o.status.code(), "stderr": msg.join("\n")})
                    }
                    Err(e) => json!({"scenario": its[i].name, "machinery": format!("cannot spawn child: {}", e)}),
                };
                results.lock().unwrap()[k] = Some(v);
            });
        }
    });
    let results: Vec<Value> = results.into_inner().unwrap().into_iter().map(|v| v.unwrap_or(Value::Null)).collect();
    let mut violations = vec![];
    let mut machinery: Option<String> = None;
    let mut evals = 0u64;
    let mut distinct = 0u64;
    let mut capped_any = false;
    for r in &results {
        if r.is_null() {
            machinery = Some("a scenario produced no report".into());
            continue;
        }
        if let Some(m) = r["machinery"].as_str() {
            machinery = Some(m.to_string());
        }
        evals += r["executions"].as_u64().unwrap_or(0);
        distinct += r["distinct_outcomes"].as_u64().unwrap_or(0);
        capped_any |= r["capped"].as_bool().unwrap_or(false);
        if r["failed"].as_bool().unwrap_or(false) {
            let dir = format!("{}/{}", replays, prop);
            let _ = std::fs::create_dir_all(&dir);
            let name = r["scenario"].as_str().unwrap_or("?").replace(['/', ' '], "_");
            let path = format!("{}/{}-loomx-{}.json", dir, prop, name);
            let js = json!({"engine": "loomx", "property": prop, "scenario": r["scenario"], "tier": tier, "violations": [r["stderr"]]});
            let _ = std::fs::write(&path, serde_json::to_string_pretty(&js).unwrap());
            violations.push(json!({"family": "loomx", "label": r["scenario"], "tag": "loom", "message": r["stderr"], "replay": path}));
        }
    }
    let frag = json!({
        "engine": "loomx", "property": prop, "tier": tier, "families": results,
        "evaluations": evals, "distinct_nontrivial": distinct.max(if evals > 0 { 2 } else { 0 }),
        "samples": results.iter().take(3).cloned().collect::<Vec<_>>(),
        "exhaustive": false, "exhaustive_within_preemption_bound": !capped_any,
        "violations": violations, "machinery_error": machinery, "wall_s": t0.elapsed().as_secs_f64(),
        "assumptions": ["loom explores the C11 memory model of the primitives routed through nexosim's loom_exports (queue, task, seqlock cell, cached lock) within the preemption bound; third-party crates are not intercepted"],
    });
    let text = serde_json::to_string_pretty(&frag).unwrap();
    match &out {
        Some(p) => std::fs::write(p, text).unwrap(),
        None => println!("{}", text),
    }
    if let Some(m) = frag["machinery_error"].as_str() {
        eprintln!("loomx: MACHINERY ERROR: {}", m);
        exit(2);
    }
    for v in frag["violations"].as_array().unwrap() {
        println!("VIOLATION property={} replay={}", prop, v["replay"].as_str().unwrap());
        eprintln!("  {} :: {}", v["label"], tail(v["message"].as_str().unwrap_or(""), 400));
    }
    eprintln!("loomx {} {}: {} executions over {} scenarios, {} violations, {:.1}s", prop, tier, evals, n, frag["violations"].as_array().unwrap().len(), t0.elapsed().as_secs_f64());
    exit(if frag["violations"].as_array().unwrap().is_empty() { 0 } else { 1 });
}

fn tail(s: &str, n: usize) -> String {
    let c: Vec<char> = s.chars().collect();
    c[c.len().saturating_sub(n)..].iter().collect()
}
