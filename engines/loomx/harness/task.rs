//! C13 / C05: the task state machine under every interleaving of its handles.
//!
//! A *program* distributes handle operations over two threads (A: a waker and
//! the cancel token, B: a waker and the promise) running concurrently with an
//! "executor" thread that runs whatever the task's schedule function queued.
//! The schedule function stores the `Runnable` in a single slot and fails if
//! the slot is occupied (two live `Runnable`s for one task). The future's
//! state lives in a loom `UnsafeCell`, so overlapping polls are data races that
//! loom reports, besides the explicit non-reentrancy flag.

use std::future::Future;
use std::pin::Pin;
use std::sync::atomic::{AtomicBool, AtomicU64, AtomicUsize, Ordering as O};
use std::sync::{Arc, Mutex};
use std::task::{Context, Poll, Waker};

use loom::cell::UnsafeCell;
use loom::lazy_static;
use loom::sync::atomic::AtomicUsize as LAtomicUsize;
use loom::sync::atomic::Ordering::{Acquire, Relaxed, Release};
use loom::thread;

use crate::executor::task::{spawn, spawn_and_forget, CancelToken, Promise, Runnable};

use super::{outcome, Item};

// ---------------------------------------------------------------------------
// Single-slot run queue (same design as the repository's own loom tests).
// ---------------------------------------------------------------------------

struct RunnableSlot {
    state: LAtomicUsize,
    runnable: UnsafeCell<Option<Runnable>>,
}
impl RunnableSlot {
    const LOCKED: usize = 0b01;
    const POPULATED: usize = 0b10;
    fn new() -> Self {
        Self { state: LAtomicUsize::new(0), runnable: UnsafeCell::new(None) }
    }
    fn take(&self) -> Option<Runnable> {
        self.state
            .fetch_update(Acquire, Relaxed, |s| if s == Self::POPULATED { Some(Self::LOCKED) } else { None })
            .ok()
            .and_then(|_| {
                let r = unsafe { self.runnable.with_mut(|r| (*r).take()) };
                assert!(r.is_some());
                self.state.store(0, Release);
                r
            })
    }
    fn set(&self, runnable: Runnable) {
        let state = self.state.swap(Self::LOCKED, Acquire);
        if state != 0 {
            // Leak the runnable: dropping it here would run task code inside
            // the failure path.
            std::mem::forget(runnable);
            panic!("[two_runnables] a second Runnable was created while one is alive (scheduled or being stored)");
        }
        unsafe { self.runnable.with_mut(|r| *r = Some(runnable)) };
        self.state.store(Self::POPULATED, Release);
    }
}
unsafe impl Sync for RunnableSlot {}
unsafe impl Send for RunnableSlot {}

lazy_static! {
    static ref SLOT: RunnableSlot = RunnableSlot::new();
}

fn schedule(r: Runnable, _tag: ()) {
    SLOT.set(r);
}

// ---------------------------------------------------------------------------
// Instrumented future
// ---------------------------------------------------------------------------

static TICK: AtomicU64 = AtomicU64::new(1);
fn tick() -> u64 {
    TICK.fetch_add(1, O::SeqCst)
}

#[derive(Default)]
struct Fx {
    polls: AtomicUsize,
    in_poll: AtomicBool,
    done: AtomicBool,
    last_poll_tick: AtomicU64,
    fut_drops: AtomicUsize,
    out_drops: AtomicUsize,
    /// Tick at which a cancellation issued from inside `poll` returned.
    cancelled_in_poll: AtomicU64,
    waker: Mutex<Option<Waker>>,
    token: Mutex<Option<CancelToken>>,
}

struct Out {
    fx: Arc<Fx>,
}
impl Drop for Out {
    fn drop(&mut self) {
        self.fx.out_drops.fetch_add(1, O::SeqCst);
    }
}

#[derive(Clone, Copy, Debug, PartialEq)]
pub enum FutKind {
    /// Returns `Pending` this many times, then completes.
    Pending(usize),
    /// Never completes.
    Never,
    /// On its second poll wakes itself, cancels its own task, returns Pending.
    CancelInPoll,
    /// On its second poll wakes itself three times, returns Pending, then completes.
    SelfWake3,
    /// Like `CancelInPoll`, and the future keeps a clone of its own waker
    /// (released when the future is dropped, possibly as the last reference).
    CancelInPollKeepWaker,
    /// Keeps a clone of its own waker and never completes.
    NeverKeepWaker,
}

struct Scripted {
    fx: Arc<Fx>,
    kind: FutKind,
    seen: usize,
    cell: UnsafeCell<u32>,
    own_waker: Option<Waker>,
}

impl Future for Scripted {
    type Output = Out;
    fn poll(mut self: Pin<&mut Self>, cx: &mut Context<'_>) -> Poll<Out> {
        let fx = self.fx.clone();
        fx.last_poll_tick.store(tick(), O::SeqCst);
        assert!(!fx.in_poll.swap(true, O::SeqCst), "[overlap] the future is polled by two threads at once");
        assert!(!fx.done.load(O::SeqCst), "[after_completion] the future is polled after it completed");
        assert_eq!(fx.cancelled_in_poll.load(O::SeqCst), 0, "[after_cancel] the future is polled again after its task was cancelled (cancel() had returned)");
        self.cell.with_mut(|c| unsafe { *c += 1 });
        fx.polls.fetch_add(1, O::SeqCst);
        self.seen += 1;
        if self.seen == 1 {
            *fx.waker.lock().unwrap() = Some(cx.waker().clone());
            if matches!(self.kind, FutKind::CancelInPollKeepWaker | FutKind::NeverKeepWaker) {
                self.own_waker = Some(cx.waker().clone());
            }
        }
        let seen = self.seen;
        let r = match self.kind {
            FutKind::Pending(n) => {
                if seen > n {
                    fx.done.store(true, O::SeqCst);
                    Poll::Ready(Out { fx: fx.clone() })
                } else {
                    Poll::Pending
                }
            }
            FutKind::Never | FutKind::NeverKeepWaker => Poll::Pending,
            FutKind::CancelInPoll | FutKind::CancelInPollKeepWaker => {
                if seen == 2 {
                    cx.waker().wake_by_ref();
                    if let Some(t) = fx.token.lock().unwrap().take() {
                        t.cancel();
                        fx.cancelled_in_poll.store(tick(), O::SeqCst);
                    }
                }
                Poll::Pending
            }
            FutKind::SelfWake3 => {
                if seen == 2 {
                    cx.waker().wake_by_ref();
                    cx.waker().wake_by_ref();
                    cx.waker().wake_by_ref();
                    Poll::Pending
                } else if seen >= 3 {
                    fx.done.store(true, O::SeqCst);
                    Poll::Ready(Out { fx: fx.clone() })
                } else {
                    Poll::Pending
                }
            }
        };
        fx.in_poll.store(false, O::SeqCst);
        r
    }
}
impl Drop for Scripted {
    fn drop(&mut self) {
        self.fx.fut_drops.fetch_add(1, O::SeqCst);
    }
}

// ---------------------------------------------------------------------------
// Programs
// ---------------------------------------------------------------------------

#[derive(Clone, Copy, Debug, PartialEq)]
pub enum Op {
    WakeRef,
    WakeVal,
    /// Clone the waker and wake through the clone (by value).
    CloneWake,
    DropWaker,
    Cancel,
    DropToken,
    PollPromise,
    DropPromise,
    /// Sequential programs only.
    Run,
    DropRunnable,
}

#[derive(Clone, Debug)]
pub struct Program {
    pub forget: bool,
    pub fut: FutKind,
    pub a: Vec<Op>,
    pub b: Vec<Op>,
    /// How many times the executor thread tries to run a scheduled task.
    pub exec: usize,
    /// A second executor thread takes scheduled tasks from the same slot (thread B's
    /// program must be empty): successive polls may then happen on different threads,
    /// ordered only by the task's own state word.
    pub exec2: bool,
}

struct Hands {
    waker: Option<Waker>,
    token: Option<CancelToken>,
    promise: Option<Promise<Out>>,
    /// Tick at which `cancel()` returned.
    cancel_tick: u64,
    /// Tick at which the last wake was issued.
    last_wake: u64,
    got_output: bool,
}

fn do_op(h: &mut Hands, op: Op) {
    match op {
        Op::WakeRef => {
            if let Some(w) = &h.waker {
                h.last_wake = tick();
                w.wake_by_ref();
            }
        }
        Op::WakeVal => {
            if let Some(w) = h.waker.take() {
                h.last_wake = tick();
                w.wake();
            }
        }
        Op::CloneWake => {
            if let Some(w) = &h.waker {
                let c = w.clone();
                h.last_wake = tick();
                c.wake();
            }
        }
        Op::DropWaker => {
            h.waker.take();
        }
        Op::Cancel => {
            if let Some(t) = h.token.take() {
                t.cancel();
                h.cancel_tick = tick();
            }
        }
        Op::DropToken => {
            h.token.take();
        }
        Op::PollPromise => {
            if let Some(p) = &h.promise {
                let st = p.poll();
                if st.is_ready() {
                    h.got_output = true;
                }
                drop(st);
            }
        }
        Op::DropPromise => {
            h.promise.take();
        }
        Op::Run | Op::DropRunnable => unreachable!(),
    }
}

fn run_program(p: &Program) {
    let fx = Arc::new(Fx::default());
    let fut = Scripted { fx: fx.clone(), kind: p.fut, seen: 0, cell: UnsafeCell::new(0), own_waker: None };
    let (promise, runnable, token) = if p.forget {
        let (r, t) = spawn_and_forget(fut, schedule, ());
        (None, r, t)
    } else {
        let (pr, r, t) = spawn(fut, schedule, ());
        (Some(pr), r, t)
    };
    // First poll on this thread: the future parks and publishes its waker.
    runnable.run();
    let waker = fx.waker.lock().unwrap().take();
    let (wa, wb) = match waker {
        Some(w) => (Some(w.clone()), Some(w)),
        None => (None, None),
    };
    let mut token = Some(token);
    if matches!(p.fut, FutKind::CancelInPoll | FutKind::CancelInPollKeepWaker) {
        *fx.token.lock().unwrap() = token.take();
    }
    let mut ha = Hands { waker: wa, token, promise: None, cancel_tick: 0, last_wake: 0, got_output: false };
    let mut hb = Hands { waker: wb, token: None, promise, cancel_tick: 0, last_wake: 0, got_output: false };
    let exec_n = p.exec;
    let exec_loop = move || {
        let mut misses = 0;
        let mut runs = 0;
        while runs < exec_n && misses < 2 {
            if let Some(r) = SLOT.take() {
                r.run();
                runs += 1;
            } else {
                misses += 1;
                thread::yield_now();
            }
        }
    };
    let he = thread::spawn(exec_loop);
    let he2 = if p.exec2 {
        assert!(p.b.is_empty(), "two-executor programs have no thread B");
        Some(thread::spawn(exec_loop))
    } else {
        None
    };
    let pa = p.a.clone();
    let ta = thread::spawn(move || {
        for op in pa {
            do_op(&mut ha, op);
        }
        ha
    });
    let pb = p.b.clone();
    let (tb, hb_kept) = if p.exec2 {
        (None, Some(hb))
    } else {
        (
            Some(thread::spawn(move || {
                for op in pb {
                    do_op(&mut hb, op);
                }
                hb
            })),
            None,
        )
    };
    he.join().unwrap();
    if let Some(h) = he2 {
        h.join().unwrap();
    }
    let mut ha = ta.join().unwrap();
    let mut hb = match tb {
        Some(t) => t.join().unwrap(),
        None => hb_kept.unwrap(),
    };
    // Everything the threads did happened-before this point.
    let cancelled = ha.cancel_tick != 0 || fx.cancelled_in_poll.load(O::SeqCst) != 0;
    let mut guard = 0;
    while let Some(r) = SLOT.take() {
        let before = fx.polls.load(O::SeqCst);
        r.run();
        if cancelled {
            assert_eq!(fx.polls.load(O::SeqCst), before, "[after_cancel] the future was polled after cancel() had returned");
        }
        guard += 1;
        assert!(guard < 8, "[livelock] the task keeps rescheduling itself");
    }
    let done = fx.done.load(O::SeqCst);
    if !done && !cancelled {
        let last_wake = ha.last_wake.max(hb.last_wake);
        let last_poll = fx.last_poll_tick.load(O::SeqCst);
        assert!(
            last_wake == 0 || last_poll > last_wake,
            "[lost_wake] a wake-up issued while the future was pending was not followed by a poll (wake tick {}, last poll tick {})",
            last_wake,
            last_poll
        );
    }
    // Release every handle; the future, its output and the task must each be
    // released exactly once.
    ha.waker.take();
    ha.token.take();
    hb.waker.take();
    if let Some(pr) = hb.promise.take() {
        let st = pr.poll();
        if st.is_ready() {
            hb.got_output = true;
        }
        drop(st);
        drop(pr);
    }
    fx.token.lock().unwrap().take();
    fx.waker.lock().unwrap().take();
    while let Some(r) = SLOT.take() {
        drop(r);
    }
    let fd = fx.fut_drops.load(O::SeqCst);
    let cycle = matches!(p.fut, FutKind::CancelInPollKeepWaker | FutKind::NeverKeepWaker) && !cancelled && !done;
    if cycle {
        assert!(fd <= 1, "[release] the future was dropped {} times", fd);
    } else {
        assert_eq!(fd, 1, "[release] the future was dropped {} times", fd);
    }
    let od = fx.out_drops.load(O::SeqCst);
    assert_eq!(od, if done { 1 } else { 0 }, "[release] the output was dropped {} times (completed: {})", od, done);
    outcome(format!("polls={} done={} cancelled={} out={}", fx.polls.load(O::SeqCst), done, cancelled, hb.got_output));
}

/// Sequential program: every operation is performed by this thread, in order.
fn run_sequential(forget: bool, fut: FutKind, ops: &[Op]) {
    let fx = Arc::new(Fx::default());
    let f = Scripted { fx: fx.clone(), kind: fut, seen: 0, cell: UnsafeCell::new(0), own_waker: None };
    let (promise, runnable, token) = if forget {
        let (r, t) = spawn_and_forget(f, schedule, ());
        (None, r, t)
    } else {
        let (pr, r, t) = spawn(f, schedule, ());
        (Some(pr), r, t)
    };
    runnable.run();
    let waker = fx.waker.lock().unwrap().take();
    let mut token = Some(token);
    if matches!(fut, FutKind::CancelInPoll | FutKind::CancelInPollKeepWaker) {
        *fx.token.lock().unwrap() = token.take();
    }
    let mut h = Hands { waker, token, promise, cancel_tick: 0, last_wake: 0, got_output: false };
    let mut runnable_dropped = false;
    for op in ops {
        match op {
            Op::Run => {
                if let Some(r) = SLOT.take() {
                    let before = fx.polls.load(O::SeqCst);
                    r.run();
                    if h.cancel_tick != 0 {
                        assert_eq!(fx.polls.load(O::SeqCst), before, "[after_cancel] the future was polled after cancel() had returned");
                    }
                    if fx.cancelled_in_poll.load(O::SeqCst) != 0 {
                        // Cancelled from inside poll: from now on the task counts as cancelled.
                        h.cancel_tick = fx.cancelled_in_poll.load(O::SeqCst);
                    }
                }
            }
            Op::DropRunnable => {
                if let Some(r) = SLOT.take() {
                    drop(r);
                    runnable_dropped = true;
                }
            }
            Op::WakeRef | Op::WakeVal | Op::CloneWake => {
                let had = h.waker.is_some();
                let idle = !fx.done.load(O::SeqCst) && h.cancel_tick == 0 && !runnable_dropped;
                do_op(&mut h, *op);
                if had && idle {
                    // The wake-up must have produced (or found) a scheduled Runnable.
                    let r = SLOT.take();
                    assert!(r.is_some(), "[lost_wake] a wake-up of a pending task did not schedule it");
                    SLOT.set(r.unwrap());
                }
            }
            other => do_op(&mut h, *other),
        }
    }
    let mut guard = 0;
    while let Some(r) = SLOT.take() {
        let before = fx.polls.load(O::SeqCst);
        r.run();
        if h.cancel_tick != 0 {
            assert_eq!(fx.polls.load(O::SeqCst), before, "[after_cancel] the future was polled after cancel() had returned");
        }
        guard += 1;
        assert!(guard < 8, "[livelock] the task keeps rescheduling itself");
    }
    let done = fx.done.load(O::SeqCst);
    h.waker.take();
    h.token.take();
    if let Some(pr) = h.promise.take() {
        let st = pr.poll();
        drop(st);
        drop(pr);
    }
    fx.token.lock().unwrap().take();
    fx.waker.lock().unwrap().take();
    let fd = fx.fut_drops.load(O::SeqCst);
    // A future that keeps its own waker forms a reference cycle with its task:
    // unless the task was cancelled or its Runnable dropped it is never
    // released (by design, not a defect); it must still not be dropped twice.
    let cycle = matches!(fut, FutKind::CancelInPollKeepWaker | FutKind::NeverKeepWaker)
        && h.cancel_tick == 0
        && fx.cancelled_in_poll.load(O::SeqCst) == 0
        && !runnable_dropped
        && !done;
    if cycle {
        assert!(fd <= 1, "[release] the future was dropped {} times", fd);
    } else {
        assert_eq!(fd, 1, "[release] the future was dropped {} times", fd);
    }
    let od = fx.out_drops.load(O::SeqCst);
    assert_eq!(od, if done { 1 } else { 0 }, "[release] the output was dropped {} times (completed: {})", od, done);
    outcome(format!("polls={} done={}", fx.polls.load(O::SeqCst), done));
}

fn seqs(alpha: &[Op], depth: usize) -> Vec<Vec<Op>> {
    let mut out = vec![vec![]];
    let mut layer: Vec<Vec<Op>> = vec![vec![]];
    for _ in 0..depth {
        let mut next = vec![];
        for s in &layer {
            for a in alpha {
                let mut s2 = s.clone();
                s2.push(*a);
                next.push(s2);
            }
        }
        out.extend(next.iter().cloned());
        layer = next;
    }
    out
}

fn prog(forget: bool, fut: FutKind, a: &[Op], b: &[Op], exec: usize) -> Program {
    Program { forget, fut, a: a.to_vec(), b: b.to_vec(), exec, exec2: false }
}

fn prog2(forget: bool, fut: FutKind, a: &[Op], exec: usize) -> Program {
    Program { forget, fut, a: a.to_vec(), b: vec![], exec, exec2: true }
}

fn program_item(p: Program, pbq: usize, pbt: usize) -> Item {
    let name = format!("program/{}{:?}/A{:?}/B{:?}/exec{}{}", if p.forget { "forget/" } else { "" }, p.fut, p.a, p.b, p.exec, if p.exec2 { "x2" } else { "" });
    Item::new(name, pbq, pbt, move || run_program(&p))
}

/// All sequential programs up to `depth` operations, run as one loom scenario
/// (each program is a single-threaded execution inside the model).
fn sequential_item(depth: usize, name: &str) -> Item {
    use Op::*;
    let alpha = [Run, WakeRef, WakeVal, CloneWake, Cancel, DropToken, PollPromise, DropPromise, DropRunnable, DropWaker];
    let all = seqs(&alpha, depth);
    let name = format!("{} ({} programs x 2 spawn kinds x 5 futures)", name, all.len());
    Item::new(name, 1, 1, move || {
        // One loom model per program (each is a single-threaded execution).
        for forget in [false, true] {
            for fut in [FutKind::Pending(1), FutKind::Pending(2), FutKind::Never, FutKind::CancelInPollKeepWaker, FutKind::NeverKeepWaker] {
                for ops in &all {
                    let ops = ops.clone();
                    loom::model(move || {
                        super::ITER.fetch_add(1, O::Relaxed);
                        run_sequential(forget, fut, &ops);
                    });
                }
            }
        }
    })
    .raw()
}

fn programs(thorough: bool) -> Vec<Item> {
    use FutKind::*;
    use Op::*;
    let mut v = vec![];
    // Hand-picked core (quick tier).
    let core: Vec<Program> = vec![
        prog(false, Pending(1), &[WakeRef], &[WakeRef], 2),
        prog(false, Pending(2), &[WakeRef, WakeRef], &[WakeRef], 2),
        prog(false, Never, &[WakeRef, WakeRef], &[WakeRef, WakeRef], 2),
        prog(false, Never, &[WakeVal], &[WakeVal], 2),
        prog(false, Pending(1), &[WakeRef, Cancel], &[PollPromise], 2),
        prog(false, Never, &[Cancel], &[WakeRef, DropPromise], 2),
        prog(false, Pending(1), &[WakeVal, DropToken], &[WakeRef, PollPromise], 2),
        prog(true, Never, &[DropToken, WakeVal], &[DropWaker], 2),
        prog(true, Pending(1), &[DropToken, CloneWake, DropWaker], &[WakeVal], 2),
        prog(true, Pending(2), &[WakeRef, WakeRef], &[WakeRef, DropWaker], 3),
        prog(false, CancelInPoll, &[WakeRef], &[PollPromise], 2),
        prog(false, SelfWake3, &[WakeRef], &[], 3),
        prog(false, Never, &[CloneWake, CloneWake], &[CloneWake], 2),
        prog(false, Pending(1), &[DropToken], &[DropPromise, WakeVal], 2),
        prog(true, CancelInPollKeepWaker, &[WakeRef, DropWaker], &[DropWaker], 2),
        prog(false, NeverKeepWaker, &[Cancel, DropWaker], &[WakeRef, DropPromise, DropWaker], 2),
        prog(true, NeverKeepWaker, &[WakeRef, Cancel, DropWaker], &[DropWaker], 2),
        // Cancelled while being polled (the poll returns Pending), then woken again.
        prog(true, Never, &[WakeRef, Cancel], &[WakeRef], 2),
        prog(false, Pending(2), &[WakeRef, Cancel], &[WakeRef, WakeRef], 3),
        prog(true, NeverKeepWaker, &[WakeRef, Cancel], &[WakeRef, DropWaker], 2),
        // Two executor threads: successive polls on different threads.
        prog2(true, Pending(2), &[WakeRef, WakeRef], 1),
        prog2(true, Never, &[WakeRef, WakeVal], 1),
        prog2(true, Pending(1), &[WakeRef, DropWaker], 1),
    ];
    for p in core {
        v.push(program_item(p, 2, 3));
    }
    if thorough {
        let a_alpha = [WakeRef, WakeVal, CloneWake, DropWaker, Cancel, DropToken];
        let b_alpha = [WakeRef, WakeVal, PollPromise, DropPromise, DropWaker];
        for fut in [Pending(1), Never] {
            for forget in [false, true] {
                for a in seqs(&a_alpha, 2) {
                    for b in seqs(&b_alpha, 1) {
                        if a.is_empty() && b.is_empty() {
                            continue;
                        }
                        v.push(program_item(prog(forget, fut, &a, &b, 2), 2, 2).thorough());
                    }
                }
            }
        }
    }
    v
}

pub fn c13() -> Vec<Item> {
    let mut v = vec![sequential_item(3, "sequential/depth3"), sequential_item(4, "sequential/depth4").thorough()];
    v.extend(programs(true));
    v
}

/// C05 at task level: a model's init + message loop is one task; isolation
/// rests on "at most one Runnable per task" and "never two polls at once".
pub fn c05() -> Vec<Item> {
    use FutKind::*;
    use Op::*;
    let mut v = vec![];
    for p in [
        prog(true, Never, &[WakeRef, WakeRef, WakeRef], &[WakeRef], 3),
        prog(true, Never, &[WakeRef, WakeRef], &[WakeRef, WakeRef], 3),
        prog(true, SelfWake3, &[WakeRef], &[WakeRef], 3),
        prog(true, Pending(2), &[CloneWake, WakeRef], &[WakeVal], 3),
        prog(true, Never, &[WakeRef, WakeRef, WakeRef], &[], 2),
        prog2(true, Pending(2), &[WakeRef, WakeRef], 1),
        prog2(true, Never, &[WakeRef, WakeRef], 1),
    ] {
        v.push(program_item(p, 2, 3));
    }
    v.push(sequential_item(3, "sequential/depth3"));
    v
}
