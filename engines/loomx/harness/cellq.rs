//! C15 (seqlock time cell), C12 (mailbox queue) and C14 (cached lock) under loom.

use loom::sync::atomic::{AtomicBool, Ordering};
use loom::sync::Arc;
use loom::thread;

use recycle_box::RecycleBox;

use crate::channel::queue::{PopError, PushError, Queue};
use crate::time::{MonotonicTime, TearableAtomicTime};
use crate::util::cached_rw_lock::CachedRwLock;
use crate::util::sync_cell::SyncCell;

use super::{outcome, Item};

fn t(k: usize) -> MonotonicTime {
    // Seconds and nanoseconds pairwise distinct across values; the seconds span the whole
    // range of a `MonotonicTime` (before the epoch, small, beyond 2^31, 2^33 and 2^62) and the
    // nanoseconds both ends of theirs, so that every bit of both fields matters.
    // (Increasing with k: simulation time only moves forward.)
    const SECS: [i64; 6] = [-((1 << 33) + 7), -3, 10, (1 << 31) + 11, (1 << 34) + 12, 1 << 62];
    const NANOS: [u32; 6] = [999_999_999, 100, 0, 536_870_913, 999_999_998, 1];
    assert!(k < 6);
    MonotonicTime::new(SECS[k], NANOS[k]).unwrap()
}

fn is_written(v: MonotonicTime, n: usize) -> bool {
    (0..=n).any(|k| t(k) == v)
}

/// One writer performing `writes` successive updates; `readers` threads doing
/// `reads` reads each, through `try_read` or the spinning `read`.
fn cell_body(writes: usize, readers: usize, reads: usize, spinning: bool) {
    let cell = SyncCell::new(TearableAtomicTime::new(t(0)));
    let mut hs = vec![];
    for _ in 0..readers {
        let r = cell.reader();
        hs.push(thread::spawn(move || {
            let mut prev = t(0);
            let mut seen = vec![];
            for _ in 0..reads {
                let v = if spinning {
                    r.read()
                } else {
                    match r.try_read() {
                        Ok(v) => v,
                        Err(_) => continue,
                    }
                };
                assert!(is_written(v, writes), "[torn] time read {:?} was never written (a mix of the fields of two values)", v);
                assert!(v >= prev, "[backwards] a reader observed {:?} after {:?}", v, prev);
                prev = v;
                seen.push(v.as_secs());
            }
            seen
        }));
    }
    for k in 1..=writes {
        cell.write(t(k));
    }
    let mut o = vec![];
    for h in hs {
        o.push(h.join().unwrap());
    }
    // The owner's own reads are synchronised.
    assert_eq!(cell.read(), t(writes));
    outcome(format!("{:?}", o));
}

/// A write published through a release/acquire flag must be visible.
fn cell_publish_body(spinning: bool) {
    let cell = SyncCell::new(TearableAtomicTime::new(t(0)));
    let flag = Arc::new(AtomicBool::new(false));
    let r = cell.reader();
    let f2 = flag.clone();
    let h = thread::spawn(move || {
        if f2.load(Ordering::Acquire) {
            let v = if spinning {
                r.read()
            } else {
                match r.try_read() {
                    Ok(v) => v,
                    Err(_) => return 0,
                }
            };
            assert!(is_written(v, 2), "[torn] time read {:?} was never written", v);
            assert!(v >= t(1), "[stale] a reader obtained {:?} although {:?} had been published to it", v, t(1));
            return v.as_secs();
        }
        -1
    });
    cell.write(t(1));
    flag.store(true, Ordering::Release);
    cell.write(t(2));
    let o = h.join().unwrap();
    outcome(format!("{}", o));
}

pub fn c15() -> Vec<Item> {
    vec![
        Item::new("cell/2writes/1reader/2try_read", 3, 4, || cell_body(2, 1, 2, false)),
        Item::new("cell/2writes/1reader/2read", 3, 4, || cell_body(2, 1, 2, true)),
        Item::new("cell/3writes/1reader/2try_read", 2, 4, || cell_body(3, 1, 2, false)),
        Item::new("cell/2writes/2readers/1try_read", 1, 3, || cell_body(2, 2, 1, false)),
        Item::new("cell/1write/1reader/3try_read", 3, 5, || cell_body(1, 1, 3, false)),
        Item::new("cell/publish/try_read", 3, 5, || cell_publish_body(false)),
        Item::new("cell/publish/read", 3, 4, || cell_publish_body(true)),
        Item::new("cell/3writes/2readers/2read", 2, 3, || cell_body(3, 2, 2, true)).thorough(),
    ]
}

// ---------------------------------------------------------------------------
// C12: the queue under the C11 memory model
// ---------------------------------------------------------------------------

fn queue_body(cap: usize, producers: usize, per: usize, close: bool) {
    let q: Arc<Queue<u64>> = Arc::new(Queue::new(cap));
    let mut hs = vec![];
    for p in 0..producers {
        let q = q.clone();
        hs.push(thread::spawn(move || {
            let mut accepted = vec![];
            for k in 0..per {
                let v = (p * 100 + k) as u64;
                let mut tries = 0;
                loop {
                    match q.push(move |b| RecycleBox::recycle(b, v)) {
                        Ok(()) => {
                            accepted.push(v);
                            break;
                        }
                        Err(PushError::Full(_)) => {
                            // Fewer messages than slots exist in this scenario: the queue can never be full.
                            assert!(producers * per > cap, "[bounded] push reported a full queue although at most {} of {} slots can be occupied", producers * per - 1, cap);
                            tries += 1;
                            if tries > 3 {
                                break;
                            }
                            thread::yield_now();
                        }
                        Err(PushError::Closed) => break,
                    }
                }
            }
            if close && p == 0 {
                q.close();
            }
            accepted
        }));
    }
    // Consumer: this thread.
    let mut got = vec![];
    let mut idle = 0;
    let total = producers * per;
    loop {
        match unsafe { q.pop() } {
            Ok(m) => {
                got.push(*m);
                drop(m);
                idle = 0;
                if got.len() == total {
                    break;
                }
            }
            Err(PopError::Closed) => break,
            Err(PopError::Empty) => {
                idle += 1;
                if idle > 4 {
                    break;
                }
                thread::yield_now();
            }
        }
    }
    let mut accepted: Vec<u64> = vec![];
    for h in hs {
        accepted.extend(h.join().unwrap());
    }
    // Whatever is left is still receivable after all producers are done
    // (also after a close).
    loop {
        match unsafe { q.pop() } {
            Ok(m) => {
                got.push(*m);
            }
            Err(_) => break,
        }
    }
    assert_eq!(q.len(), 0, "[len] len() is {} although the queue was drained and nothing is in flight", q.len());
    let mut a = accepted.clone();
    let mut g = got.clone();
    a.sort();
    g.sort();
    assert_eq!(a, g, "[lossless] accepted {:?} but popped {:?}", accepted, got);
    for p in 0..producers {
        let mine: Vec<u64> = got.iter().copied().filter(|v| (*v / 100) as usize == p).collect();
        let mut s = mine.clone();
        s.sort();
        assert_eq!(mine, s, "[fifo] messages of producer {} popped as {:?}", p, mine);
    }
    if close {
        assert!(matches!(q.push(|b| RecycleBox::recycle(b, 999u64)), Err(PushError::Closed)), "[closed] push accepted after close");
    }
    outcome(format!("{:?}", got));
}

pub fn c12() -> Vec<Item> {
    vec![
        Item::new("queue/cap1/1x2", 3, 4, || queue_body(1, 1, 2, false)),
        Item::new("queue/cap2/1x3", 3, 4, || queue_body(2, 1, 3, false)),
        Item::new("queue/cap1/2x1", 2, 4, || queue_body(1, 2, 1, false)),
        Item::new("queue/cap2/2x2", 1, 3, || queue_body(2, 2, 2, false)),
        Item::new("queue/cap3/2x2", 1, 3, || queue_body(3, 2, 2, false)),
        Item::new("queue/cap1/2x1/close", 2, 4, || queue_body(1, 2, 1, true)),
        Item::new("queue/cap2/2x1/close", 2, 3, || queue_body(2, 2, 1, true)),
        // Never full: as many slots as messages.
        Item::new("queue/cap2/2x1/roomy", 2, 4, || queue_body(2, 2, 1, false)),
        Item::new("queue/cap4/2x2/roomy", 2, 3, || queue_body(4, 2, 2, false)),
        Item::new("queue/cap3/3x1/roomy", 2, 3, || queue_body(3, 3, 1, false)),
        Item::new("queue/cap2/3x1", 2, 3, || queue_body(2, 3, 1, false)).thorough(),
    ]
}

// ---------------------------------------------------------------------------
// C14: clones of a cached lock share one value
// ---------------------------------------------------------------------------

fn crw_body(writes: usize, reads: usize, two_writers: bool) {
    let mut w0: CachedRwLock<Vec<usize>> = CachedRwLock::new(vec![]);
    let mut w1 = w0.clone();
    let mut reader = w0.clone();
    let hw = thread::spawn(move || {
        for k in 0..writes {
            let mut g = w0.write().unwrap();
            g.push(k);
        }
        w0
    });
    let hw1 = if two_writers {
        Some(thread::spawn(move || {
            let mut g = w1.write().unwrap();
            g.push(100);
            drop(g);
            w1
        }))
    } else {
        None
    };
    let hr = thread::spawn(move || {
        let mut prev = 0;
        for _ in 0..reads {
            let v = reader.write_scratchpad().unwrap().len();
            assert!(v >= prev, "[backwards] a clone saw {} connections after {}", v, prev);
            prev = v;
        }
        reader
    });
    let mut w0 = hw.join().unwrap();
    let extra = if let Some(h) = hw1 {
        let _ = h.join().unwrap();
        1
    } else {
        0
    };
    let mut reader = hr.join().unwrap();
    // Everything written happened-before these reads (joins): every clone must
    // now see all connections.
    let seen = reader.write_scratchpad().unwrap().len();
    assert_eq!(seen, writes + extra, "[stale_clone] a clone sees {} connections after {} were added through other clones", seen, writes + extra);
    let seen0 = w0.read().unwrap().len();
    assert_eq!(seen0, writes + extra, "[stale_clone] the writing clone sees {} of {} connections", seen0, writes + extra);
    outcome(format!("{}", seen));
}

pub fn c14() -> Vec<Item> {
    vec![
        Item::new("cached_lock/1write/2reads", 3, 5, || crw_body(1, 2, false)),
        Item::new("cached_lock/2writes/2reads", 3, 4, || crw_body(2, 2, false)),
        Item::new("cached_lock/2writers/2reads", 2, 3, || crw_body(1, 2, true)),
        Item::new("cached_lock/3writes/3reads", 2, 3, || crw_body(3, 3, false)).thorough(),
    ]
}
