fn main() { nexosim::vxharness::main(); }
