//! Token-based thread parker with the API subset of `parking` used by nexosim,
//! implemented with shuttle's Mutex and Condvar.
use std::sync::Arc;
use std::time::Duration;

use shuttle::sync::{Condvar, Mutex};

#[derive(Debug)]
struct Inner {
    token: Mutex<bool>,
    cv: Condvar,
}

#[derive(Debug)]
pub struct Parker {
    inner: Arc<Inner>,
}

#[derive(Debug, Clone)]
pub struct Unparker {
    inner: Arc<Inner>,
}

impl Parker {
    pub fn new() -> Parker {
        Parker {
            inner: Arc::new(Inner {
                token: Mutex::new(false),
                cv: Condvar::new(),
            }),
        }
    }
    /// Blocks until a token is available, and consumes it.
    pub fn park(&self) {
        let mut t = self.inner.token.lock().unwrap();
        while !*t {
            t = self.inner.cv.wait(t).unwrap();
        }
        *t = false;
    }
    /// Under the controlled scheduler time does not pass; a timeout is modelled
    /// as a scheduling outcome: the parker yields once and, if it is scheduled
    /// again before a token was deposited, the park "times out" (returns
    /// `false`). Every placement of the timeout relative to the other threads'
    /// steps is therefore explored (within the preemption bound).
    pub fn park_timeout(&self, _duration: Duration) -> bool {
        {
            let mut t = self.inner.token.lock().unwrap();
            if *t {
                *t = false;
                return true;
            }
        }
        shuttle::thread::yield_now();
        let mut t = self.inner.token.lock().unwrap();
        if *t {
            *t = false;
            true
        } else {
            false
        }
    }
    pub fn unpark(&self) -> bool {
        self.unparker().unpark()
    }
    pub fn unparker(&self) -> Unparker {
        Unparker {
            inner: self.inner.clone(),
        }
    }
}

impl Default for Parker {
    fn default() -> Self {
        Self::new()
    }
}

impl Unparker {
    pub fn unpark(&self) -> bool {
        let mut t = self.inner.token.lock().unwrap();
        let was = *t;
        *t = true;
        drop(t);
        self.inner.cv.notify_one();
        !was
    }
}

pub fn pair() -> (Parker, Unparker) {
    let p = Parker::new();
    let u = p.unparker();
    (p, u)
}
