// Shuttle flavour of nexosim's `loom_exports`: same names, resolved to
// shuttle (atomics, Mutex) or std (Arc: shuttle's Arc is std's anyway).
#[allow(unused_imports)]
pub(crate) mod sync {
    pub(crate) use shuttle::sync::{Mutex, MutexGuard};
    pub(crate) use std::sync::{Arc, LockResult, PoisonError};

    pub(crate) mod atomic {
        pub(crate) use shuttle::sync::atomic::{
            fence, AtomicBool, AtomicIsize, AtomicPtr, AtomicU32, AtomicU64, AtomicUsize, Ordering,
        };
    }
}

pub(crate) mod cell {
    #[derive(Debug)]
    pub(crate) struct UnsafeCell<T>(std::cell::UnsafeCell<T>);

    #[allow(dead_code)]
    impl<T> UnsafeCell<T> {
        #[inline(always)]
        pub(crate) fn new(data: T) -> UnsafeCell<T> {
            UnsafeCell(std::cell::UnsafeCell::new(data))
        }
        #[inline(always)]
        pub(crate) fn with<R>(&self, f: impl FnOnce(*const T) -> R) -> R {
            f(self.0.get())
        }
        #[inline(always)]
        pub(crate) fn with_mut<R>(&self, f: impl FnOnce(*mut T) -> R) -> R {
            f(self.0.get())
        }
    }
}

// Internal consistency assertions are always on in verification builds.
#[allow(unused_macros)]
macro_rules! debug_or_loom_assert {
    ($($arg:tt)*) => (assert!($($arg)*);)
}
#[allow(unused_macros)]
macro_rules! debug_or_loom_assert_eq {
    ($($arg:tt)*) => (assert_eq!($($arg)*);)
}
#[allow(unused_imports)]
pub(crate) use debug_or_loom_assert;
#[allow(unused_imports)]
pub(crate) use debug_or_loom_assert_eq;
