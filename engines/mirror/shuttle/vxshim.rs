//! Small adapters needed by the shuttle flavour of the mirror.
use std::cell::Cell;
use std::ops::Sub;
use std::time::Duration;

/// `std::thread::LocalKey<Cell<T>>` conveniences for shuttle's `LocalKey`.
pub(crate) trait LocalKeyCellExt<T> {
    fn get(&'static self) -> T
    where
        T: Copy;
    fn set(&'static self, v: T);
    fn take(&'static self) -> T
    where
        T: Default;
    fn replace(&'static self, v: T) -> T;
}

impl<T: 'static> LocalKeyCellExt<T> for shuttle::thread::LocalKey<Cell<T>> {
    fn get(&'static self) -> T
    where
        T: Copy,
    {
        self.with(|c| c.get())
    }
    fn set(&'static self, v: T) {
        self.with(|c| c.set(v))
    }
    fn take(&'static self) -> T
    where
        T: Default,
    {
        self.with(|c| c.take())
    }
    fn replace(&'static self, v: T) -> T {
        self.with(|c| c.replace(v))
    }
}

shuttle::thread_local! {
    static FAKE_NOW: Cell<u64> = Cell::new(0);
}

/// Deterministic stand-in for `std::time::Instant`: every call to `now()`
/// advances a per-thread counter by 600 ns, so the 1 us search window of the
/// worker loop is a fixed number of iterations.
#[derive(Clone, Copy, Debug, PartialEq, Eq, PartialOrd, Ord)]
pub(crate) struct Instant(u64);

impl Instant {
    pub(crate) fn now() -> Self {
        FAKE_NOW.with(|c| {
            let v = c.get() + 600;
            c.set(v);
            Instant(v)
        })
    }
}

impl Sub for Instant {
    type Output = Duration;
    fn sub(self, rhs: Instant) -> Duration {
        Duration::from_nanos(self.0.saturating_sub(rhs.0))
    }
}
