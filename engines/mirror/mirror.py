#!/usr/bin/env python3
"""mirror.py <flavour> <repo> <dest>

Creates a *mirror* of <repo>/nexosim/src in <dest> whose synchronisation
primitives resolve to a controlled scheduler (flavour `shuttle` or `loom`).
Only import lines, module visibility and the `loom_exports` shim are touched;
every rewrite rule must match, otherwise the run fails (exit 2): a source
change cannot silently escape the rewriting.

File modification times are preserved (rewritten files inherit the mtime of
their source) so that cargo sees an unchanged mirror as unchanged.
"""
import os
import re
import shutil
import sys

HERE = os.path.dirname(os.path.abspath(__file__))


class RuleError(Exception):
    pass


def sub(text, pattern, repl, path, count=0, flags=re.M):
    new, n = re.subn(pattern, repl, text, count=count, flags=flags)
    if n == 0:
        raise RuleError("rewrite rule did not match in %s: %s" % (path, pattern))
    return new


SHUTTLE_RULES = {
    "channel.rs": [
        (r"^use std::sync::atomic::", "use shuttle::sync::atomic::"),
        (r"\bthread_local! \{", "shuttle::thread_local! {"),
        (r"^use std::cell::Cell;", "use std::cell::Cell;\n#[allow(unused_imports)]\nuse crate::vxshim::LocalKeyCellExt;"),
        (r"^mod queue;", "pub(crate) mod queue;"),
    ],
    "channel/queue.rs": [
        (r"pub\(super\)", "pub(crate)"),
        (r"^use std::sync::atomic::Ordering;", "use shuttle::sync::atomic::Ordering;"),
    ],
    "executor.rs": [
        (r"^mod task;", "pub(crate) mod task;"),
        (r"^mod mt_executor;", "pub(crate) mod mt_executor;"),
        (r"^mod st_executor;", "pub(crate) mod st_executor;"),
    ],
    "executor/mt_executor.rs": [
        (r"^use std::sync::atomic::", "use shuttle::sync::atomic::"),
        (r"^use std::sync::\{Arc, Mutex\};", "use std::sync::Arc;\nuse shuttle::sync::Mutex;"),
        (r"^use std::thread::\{self, JoinHandle\};", "use shuttle::thread::{self, JoinHandle};\n#[allow(unused_imports)]\nuse crate::vxshim::LocalKeyCellExt;"),
        (r"^use std::time::\{Duration, Instant\};", "use std::time::Duration;\nuse crate::vxshim::Instant;"),
        (r"^mod injector;", "pub(crate) mod injector;"),
        (r"^mod pool_manager;", "pub(crate) mod pool_manager;"),
    ],
    "executor/mt_executor/pool_manager.rs": [
        (r"^use std::sync::atomic::", "use shuttle::sync::atomic::"),
        (r"^use std::sync::Mutex;", "use shuttle::sync::Mutex;"),
    ],
    "executor/mt_executor/injector.rs": [
        (r"^use std::sync::atomic::", "use shuttle::sync::atomic::"),
        (r"^use std::sync::Mutex;", "use shuttle::sync::Mutex;"),
    ],
    "executor/st_executor.rs": [
        (r"^use std::\{fmt, panic, thread\};", "use std::{fmt, panic};\nuse shuttle::thread;\n#[allow(unused_imports)]\nuse crate::vxshim::LocalKeyCellExt;"),
    ],
    "simulation.rs": [
        (r"^use std::sync::\{Arc, Mutex, MutexGuard\};", "use std::sync::Arc;\nuse shuttle::sync::{Mutex, MutexGuard};"),
        (r"^thread_local! \{", "shuttle::thread_local! {"),
        (r"^use std::cell::Cell;", "use std::cell::Cell;\n#[allow(unused_imports)]\nuse crate::vxshim::LocalKeyCellExt;"),
        (r"^mod scheduler;", "pub(crate) mod scheduler;"),
    ],
    "simulation/scheduler.rs": [
        (r"^use std::sync::atomic::", "use shuttle::sync::atomic::"),
        (r"^use std::sync::\{Arc, Mutex\};", "use std::sync::Arc;\nuse shuttle::sync::Mutex;"),
    ],
    "simulation/sim_init.rs": [
        (r"^use std::sync::\{Arc, Mutex\};", "use std::sync::Arc;\nuse shuttle::sync::Mutex;"),
    ],
    "time/monotonic_time.rs": [
        (r"^use std::sync::atomic::", "use shuttle::sync::atomic::"),
    ],
    "macros/scoped_thread_local.rs": [
        (r"^use std::thread::LocalKey;", "use shuttle::thread::LocalKey;"),
        (r"::std::thread_local!", "::shuttle::thread_local!"),
    ],
    "lib.rs": [
        (r"^mod loom_exports;", "extern crate self as nexosim;\npub(crate) mod loom_exports;\npub(crate) mod vxshim;\n#[path = \"%(HARNESS)s/mod.rs\"]\npub mod vxharness;"),
    ],
    "simulation.rs#2": [],
}

LOOM_RULES = {
    "channel.rs": [
        (r"^mod queue;", "pub(crate) mod queue;"),
    ],
    "channel/queue.rs": [
        (r"pub\(super\)", "pub(crate)"),
        (r"^use std::sync::atomic::Ordering;", "use loom::sync::atomic::Ordering;"),
    ],
    "executor.rs": [
        (r"^mod task;", "pub(crate) mod task;"),
    ],
    "time/monotonic_time.rs": [
        (r"^use std::sync::atomic::", "use loom::sync::atomic::"),
    ],
    "util/sync_cell.rs": [
        (r"^use std::cell::Cell;", "use std::cell::Cell;"),
    ],
    "lib.rs": [
        (r"^mod loom_exports;", "extern crate self as nexosim;\npub(crate) mod loom_exports;\n#[path = \"%(HARNESS)s/mod.rs\"]\npub mod vxharness;"),
    ],
}


def main():
    if len(sys.argv) != 4:
        print(__doc__)
        sys.exit(2)
    flavour, repo, dest = sys.argv[1:4]
    rules = {"shuttle": SHUTTLE_RULES, "loom": LOOM_RULES}[flavour]
    harness = os.path.join(os.path.dirname(HERE), {"shuttle": "shutx", "loom": "loomx"}[flavour], "harness")
    src = os.path.join(repo, "nexosim", "src")
    if os.path.exists(dest):
        shutil.rmtree(dest)
    os.makedirs(dest)
    shutil.copytree(src, os.path.join(dest, "src"), copy_function=shutil.copy2)
    # grpc code generation and tests are not part of the mirror.
    for extra in ("build.rs",):
        p = os.path.join(repo, "nexosim", extra)
        if os.path.exists(p):
            pass
    try:
        for rel, rl in rules.items():
            if "#" in rel:
                continue
            path = os.path.join(dest, "src", rel)
            if not os.path.exists(path):
                raise RuleError("file to rewrite is missing: " + rel)
            st = os.stat(path)
            text = open(path).read()
            for pat, repl in rl:
                text = sub(text, pat, repl.replace("%(HARNESS)s", harness), rel)
            open(path, "w").write(text)
            os.utime(path, (st.st_atime, st.st_mtime))
        # loom_exports shim + flavour shims.
        shim_dir = os.path.join(HERE, flavour)
        for name in os.listdir(shim_dir):
            if name.endswith(".rs"):
                shutil.copy2(os.path.join(shim_dir, name), os.path.join(dest, "src", name))
        # Cargo files.
        toml = open(os.path.join(shim_dir, "Cargo.toml.in")).read()
        toml = toml.replace("%(MIRROR)s", HERE).replace("%(HARNESS)s", harness)
        tp = os.path.join(dest, "Cargo.toml")
        open(tp, "w").write(toml)
        ref = os.stat(os.path.join(shim_dir, "Cargo.toml.in"))
        os.utime(tp, (ref.st_atime, ref.st_mtime))
        lock = os.path.join(shim_dir, "Cargo.lock")
        if os.path.exists(lock):
            shutil.copy2(lock, os.path.join(dest, "Cargo.lock"))
        os.makedirs(os.path.join(dest, ".cargo"), exist_ok=True)
        open(os.path.join(dest, ".cargo", "config.toml"), "w").write("[net]\noffline = true\n")
    except RuleError as e:
        print("mirror: MACHINERY ERROR:", e, file=sys.stderr)
        sys.exit(2)
    print("mirror: %s flavour of %s written to %s" % (flavour, src, dest))


if __name__ == "__main__":
    main()
