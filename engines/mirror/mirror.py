#!/usr/bin/env python3
"""mirror.py <flavour> <repo> <dest>

Creates a *mirror* of <repo>/nexosim/src in <dest> whose synchronisation
primitives resolve to a controlled scheduler (flavour `shuttle` or `loom`).
Only import lines, module visibility and the `loom_exports` shim are touched;
every rewrite rule must match, otherwise the run fails (exit 2): a source
change cannot silently escape the rewriting.

File modification times are preserved (rewritten files inherit the mtime of
their source) so that cargo sees an unchanged mirror as unchanged.
"""
import os
import re
import shutil
import sys

HERE = os.path.dirname(os.path.abspath(__file__))


class RuleError(Exception):
    pass


def sub(text, pattern, repl, path, count=0, flags=re.M):
    new, n = re.subn(pattern, repl, text, count=count, flags=flags)
    if n == 0:
        raise RuleError("rewrite rule did not match in %s: %s" % (path, pattern))
    return new


SYNC_MOVED = {"Mutex", "MutexGuard", "Condvar", "RwLock", "RwLockReadGuard", "RwLockWriteGuard"}


def split_sync_import(m, target):
    """`use std::sync::{Arc, Mutex, ...};` -> std part + controlled-scheduler part."""
    items = [x.strip() for x in m.group(1).replace("\n", " ").split(",") if x.strip()]
    keep, move, atomics = [], [], []
    for it in items:
        if it.startswith("atomic::") or it == "atomic":
            atomics.append(it)
        elif it.split("::")[0] in SYNC_MOVED:
            move.append(it)
        else:
            keep.append(it)
    out = []
    if keep:
        out.append("use std::sync::{%s};" % ", ".join(keep))
    if move:
        out.append("use %s::sync::{%s};" % (target, ", ".join(move)))
    if atomics:
        out.append("use %s::sync::{%s};" % (target, ", ".join(atomics)))
    return "\n".join(out)


def redirect_imports(text, target, with_threads):
    """Generic redirection of synchronisation imports to `target` (shuttle or loom)."""
    # atomics
    text = re.sub(r"^(\s*)use std::sync::atomic(::|;)", lambda m: "%suse %s::sync::atomic%s" % (m.group(1), target, m.group(2)), text, flags=re.M)
    # braced std::sync imports
    text = re.sub(r"^use std::sync::\{([^}]*)\};", lambda m: split_sync_import(m, target), text, flags=re.M)
    # single-item imports
    text = re.sub(r"^use std::sync::(Mutex|MutexGuard|Condvar|RwLock)\b", lambda m: "use %s::sync::%s" % (target, m.group(1)), text, flags=re.M)
    if with_threads:
        text = re.sub(r"^use std::thread::\{", "use %s::thread::{" % target, text, flags=re.M)
        text = re.sub(r"^use std::thread;", "use %s::thread;" % target, text, flags=re.M)
        text = re.sub(r"^use std::thread::(\w+);", lambda m: "use %s::thread::%s;" % (target, m.group(1)), text, flags=re.M)
        # `use std::{fmt, panic, thread};`
        def braces(m):
            items = [x.strip() for x in m.group(1).split(",") if x.strip()]
            if "thread" not in items:
                return m.group(0)
            items.remove("thread")
            return "use std::{%s};\nuse %s::thread;" % (", ".join(items), target)
        text = re.sub(r"^use std::\{([^}]*)\};", braces, text, flags=re.M)
        # Instant -> deterministic stand-in
        def times(m):
            items = [x.strip() for x in m.group(1).split(",") if x.strip()]
            if "Instant" not in items:
                return m.group(0)
            items.remove("Instant")
            head = ("use std::time::{%s};\n" % ", ".join(items)) if items else ""
            return head + "use crate::vxshim::Instant;"
        text = re.sub(r"^use std::time::\{([^}]*)\};", times, text, flags=re.M)
        text = re.sub(r"^use std::time::Instant;", "use crate::vxshim::Instant;", text, flags=re.M)
        text = re.sub(r"(?<![:\w])thread_local!\s*\{", "%s::thread_local! {" % target, text)
        text = text.replace("::std::thread_local!", "::%s::thread_local!" % target)
        text = re.sub(r"^use std::thread::LocalKey;", "use %s::thread::LocalKey;" % target, text, flags=re.M)
    return text


# Files whose synchronisation imports are redirected to shuttle (the crate's own
# concurrency: channel, executors, simulation front-end, scheduler, time cell).
SHUTTLE_FILES = [
    "channel.rs", "channel/queue.rs", "executor/mt_executor.rs", "executor/mt_executor/pool_manager.rs",
    "executor/mt_executor/injector.rs", "executor/st_executor.rs", "simulation.rs", "simulation/scheduler.rs",
    "simulation/sim_init.rs", "time/monotonic_time.rs", "macros/scoped_thread_local.rs",
    "ports/sink/event_buffer.rs", "ports/sink/event_slot.rs",
]
# Post-conditions: after the redirection these patterns must be absent from the redirected files.
SHUTTLE_FORBIDDEN = [r"\bstd::sync::Mutex\b", r"use std::sync::atomic", r"use std::thread", r"std::time::Instant", r"(?<![:\w])thread_local!"]
LOCALKEY_FILES = ["channel.rs", "executor/mt_executor.rs", "executor/st_executor.rs", "simulation.rs"]

SHUTTLE_RULES = {
    "channel.rs": [
        (r"^mod queue;", "pub(crate) mod queue;"),
    ],
    "channel/queue.rs": [
        (r"pub\(super\)", "pub(crate)"),
    ],
    "executor.rs": [
        (r"^mod task;", "pub(crate) mod task;"),
        (r"^mod mt_executor;", "pub(crate) mod mt_executor;"),
        (r"^mod st_executor;", "pub(crate) mod st_executor;"),
    ],
    "executor/mt_executor.rs": [
        (r"^mod injector;", "pub(crate) mod injector;"),
        (r"^mod pool_manager;", "pub(crate) mod pool_manager;"),
    ],
    "simulation.rs": [
        (r"^mod scheduler;", "pub(crate) mod scheduler;"),
    ],
    "lib.rs": [
        (r"^mod loom_exports;", "extern crate self as nexosim;\npub(crate) mod loom_exports;\npub(crate) mod vxshim;\n#[path = \"%(HARNESS)s/mod.rs\"]\npub mod vxharness;"),
    ],
}

LOOM_FILES = ["channel/queue.rs", "time/monotonic_time.rs", "executor/mt_executor/pool_manager.rs", "executor/mt_executor/injector.rs"]
LOOM_FORBIDDEN = [r"use std::sync::atomic"]
LOOM_RULES = {
    "channel.rs": [
        (r"^mod queue;", "pub(crate) mod queue;"),
    ],
    "channel/queue.rs": [
        (r"pub\(super\)", "pub(crate)"),
    ],
    "executor.rs": [
        (r"^mod task;", "pub(crate) mod task;"),
        (r"^mod mt_executor;", "pub(crate) mod mt_executor;"),
    ],
    "executor/mt_executor.rs": [
        (r"^mod injector;", "pub(crate) mod injector;"),
        (r"^mod pool_manager;", "pub(crate) mod pool_manager;"),
        (r"^type Stealer = ", "pub(crate) type Stealer = "),
    ],
    "executor/mt_executor/pool_manager.rs": [
        (r"pub\(super\)", "pub(crate)"),
    ],
    "executor/mt_executor/injector.rs": [
        # loom primitives have no const constructors
        (r"pub\(crate\) const fn new\(\)", "pub(crate) fn new()"),
    ],
    "lib.rs": [
        (r"^mod loom_exports;", "extern crate self as nexosim;\npub(crate) mod loom_exports;\n#[path = \"%(HARNESS)s/mod.rs\"]\npub mod vxharness;"),
    ],
}


def main():
    if len(sys.argv) != 4:
        print(__doc__)
        sys.exit(2)
    flavour, repo, dest = sys.argv[1:4]
    rules = {"shuttle": SHUTTLE_RULES, "loom": LOOM_RULES}[flavour]
    harness = os.path.join(os.path.dirname(HERE), {"shuttle": "shutx", "loom": "loomx"}[flavour], "harness")
    src = os.path.join(repo, "nexosim", "src")
    if os.path.exists(dest):
        shutil.rmtree(dest)
    os.makedirs(dest)
    shutil.copytree(src, os.path.join(dest, "src"), copy_function=shutil.copy2)
    # grpc code generation and tests are not part of the mirror.
    for extra in ("build.rs",):
        p = os.path.join(repo, "nexosim", extra)
        if os.path.exists(p):
            pass
    try:
        files, forbidden, target, threads = {
            "shuttle": (SHUTTLE_FILES, SHUTTLE_FORBIDDEN, "shuttle", True),
            "loom": (LOOM_FILES, LOOM_FORBIDDEN, "loom", False),
        }[flavour]
        for rel in files:
            path = os.path.join(dest, "src", rel)
            if not os.path.exists(path):
                raise RuleError("file to redirect is missing: " + rel)
            st = os.stat(path)
            text = redirect_imports(open(path).read(), target, threads)
            if flavour == "shuttle" and rel in LOCALKEY_FILES:
                # std LocalKey<Cell<_>> conveniences for shuttle's LocalKey.
                text = re.sub(r"^(use [^\n]*;\n)", r"\1#[allow(unused_imports)]\nuse crate::vxshim::LocalKeyCellExt;\n", text, count=1, flags=re.M)
            code = "\n".join(l for l in text.split("\n") if not l.lstrip().startswith("//"))
            # test modules are not compiled in the mirror
            code = code.split("#[cfg(all(test")[0].split("#[cfg(test)]")[0]
            for pat in forbidden:
                if re.search(pat, code):
                    raise RuleError("%s still contains %s after the import redirection" % (rel, pat))
            open(path, "w").write(text)
            os.utime(path, (st.st_atime, st.st_mtime))
        for rel, rl in rules.items():
            if "#" in rel:
                continue
            path = os.path.join(dest, "src", rel)
            if not os.path.exists(path):
                raise RuleError("file to rewrite is missing: " + rel)
            st = os.stat(path)
            text = open(path).read()
            for pat, repl in rl:
                text = sub(text, pat, repl.replace("%(HARNESS)s", harness), rel)
            open(path, "w").write(text)
            os.utime(path, (st.st_atime, st.st_mtime))
        # loom_exports shim + flavour shims.
        shim_dir = os.path.join(HERE, flavour)
        for name in os.listdir(shim_dir):
            if name.endswith(".rs"):
                shutil.copy2(os.path.join(shim_dir, name), os.path.join(dest, "src", name))
        # Cargo files.
        toml = open(os.path.join(shim_dir, "Cargo.toml.in")).read()
        toml = toml.replace("%(MIRROR)s", HERE).replace("%(HARNESS)s", harness)
        tp = os.path.join(dest, "Cargo.toml")
        open(tp, "w").write(toml)
        ref = os.stat(os.path.join(shim_dir, "Cargo.toml.in"))
        os.utime(tp, (ref.st_atime, ref.st_mtime))
        lock = os.path.join(shim_dir, "Cargo.lock")
        if os.path.exists(lock):
            shutil.copy2(lock, os.path.join(dest, "Cargo.lock"))
        os.makedirs(os.path.join(dest, ".cargo"), exist_ok=True)
        open(os.path.join(dest, ".cargo", "config.toml"), "w").write("[net]\noffline = true\n")
    except RuleError as e:
        print("mirror: MACHINERY ERROR:", e, file=sys.stderr)
        sys.exit(2)
    print("mirror: %s flavour of %s written to %s" % (flavour, src, dest))


if __name__ == "__main__":
    main()
