// Loom flavour of nexosim's `loom_exports`: the same mapping the repository
// uses for its own `nexosim_loom` test configuration, made unconditional.
#[allow(unused_imports)]
pub(crate) mod sync {
    pub(crate) use loom::sync::{Arc, LockResult, Mutex, MutexGuard};
    pub(crate) use std::sync::PoisonError;

    pub(crate) mod atomic {
        pub(crate) use loom::sync::atomic::{
            fence, AtomicBool, AtomicIsize, AtomicPtr, AtomicU32, AtomicU64, AtomicUsize, Ordering,
        };
    }
}

pub(crate) mod cell {
    pub(crate) use loom::cell::UnsafeCell;
}

#[allow(unused_macros)]
macro_rules! debug_or_loom_assert {
    ($($arg:tt)*) => (assert!($($arg)*);)
}
#[allow(unused_macros)]
macro_rules! debug_or_loom_assert_eq {
    ($($arg:tt)*) => (assert_eq!($($arg)*);)
}
#[allow(unused_imports)]
pub(crate) use debug_or_loom_assert;
#[allow(unused_imports)]
pub(crate) use debug_or_loom_assert_eq;
