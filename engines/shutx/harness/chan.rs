//! Component-level harnesses: the mailbox channel (C12), and the
//! multi-threaded executor driven directly (C04 executor level, C19 drop).

use std::future::Future;
use std::pin::Pin;
use std::sync::atomic::{AtomicUsize, Ordering as StdOrdering};
use std::sync::{Arc, Mutex as StdMutex};
use std::task::{Context as TaskCx, Poll, Waker};
use std::time::Duration;

use recycle_box::{coerce_box, RecycleBox};

use crate::channel::{Receiver, Sender};
use crate::executor::{Executor, Signal, SimulationContext};
use crate::model::{Context, Model};
use crate::simulation::{Address, GlobalScheduler};
use crate::time::{MonotonicTime, TearableAtomicTime};
use crate::util::priority_queue::PriorityQueue;
use crate::util::sync_cell::SyncCell;

use super::pbdfs::obs;
use super::Item;

/// A model that records what it receives.
pub struct Rec {
    got: Arc<StdMutex<Vec<u32>>>,
}
impl Model for Rec {}

fn make_ctx(rx: &Receiver<Rec>) -> Context<Rec> {
    let time = SyncCell::new(TearableAtomicTime::new(MonotonicTime::EPOCH));
    let queue = Arc::new(shuttle::sync::Mutex::new(PriorityQueue::new()));
    let sched = GlobalScheduler::new(queue, time.reader());
    Context::new("rec".to_string(), sched, Address(rx.sender()))
}

async fn send_val(tx: &Sender<Rec>, v: u32) -> bool {
    tx.send(move |m: &mut Rec, _cx, b: RecycleBox<()>| -> RecycleBox<dyn Future<Output = ()> + Send + '_> {
        let fut = async move {
            m.got.lock().unwrap().push(v);
        };
        coerce_box!(RecycleBox::recycle(b, fut))
    })
    .await
    .is_ok()
}

/// `senders` producer threads each send `per` messages; the receiver thread
/// receives until the channel is closed (all senders dropped).
fn channel_body(cap: usize, senders: usize, per: usize, close_by_receiver_after: Option<usize>) {
    channel_body_x(cap, senders, per, close_by_receiver_after, false)
}

/// With `drop_receiver`, the receiver is dropped (instead of closed) after the given number
/// of receptions: every sender still blocked on the full mailbox must be resumed and fail.
fn channel_body_x(cap: usize, senders: usize, per: usize, close_by_receiver_after: Option<usize>, drop_receiver: bool) {
    let got = Arc::new(StdMutex::new(Vec::new()));
    let mut rx: Receiver<Rec> = Receiver::new(cap);
    let mut model = Rec { got: got.clone() };
    let mut handles = vec![];
    let accepted = Arc::new(StdMutex::new(Vec::new()));
    // All sender handles exist before any producer runs (otherwise the first
    // producer could finish and close the channel as its last sender).
    let txs: Vec<Sender<Rec>> = (0..senders).map(|_| rx.sender()).collect();
    for (s, tx) in txs.into_iter().enumerate() {
        let acc = accepted.clone();
        handles.push(shuttle::thread::spawn(move || {
            shuttle::future::block_on(async {
                for k in 0..per {
                    let v = (s * 100 + k) as u32;
                    if send_val(&tx, v).await {
                        acc.lock().unwrap().push(v);
                    }
                }
            });
            drop(tx);
        }));
    }
    // The context holds an address (a sender): it must be dropped for the
    // channel to close when the producers are done.
    let consumer = shuttle::thread::spawn(move || {
        let mut cx = make_ctx(&rx);
        // Drop the context's own sender so that the channel closes once all
        // producers are gone: receive with a context that does not keep the
        // channel open.
        let mut n = 0usize;
        shuttle::future::block_on(async {
            loop {
                if let Some(limit) = close_by_receiver_after {
                    if n == limit {
                        if drop_receiver {
                            break;
                        }
                        rx.close();
                    }
                }
                // The context's address keeps one sender alive: stop when all
                // expected messages have arrived instead of waiting for closure.
                if close_by_receiver_after.is_none() && n == senders * per {
                    break;
                }
                match rx.recv(&mut model, &mut cx).await {
                    Ok(()) => n += 1,
                    Err(_) => break,
                }
            }
        });
        n
    });
    for h in handles {
        h.join().unwrap();
    }
    let n = consumer.join().unwrap();
    let got = got.lock().unwrap().clone();
    let accepted = accepted.lock().unwrap().clone();
    assert_eq!(n, got.len(), "[mailbox] receive count and handler count differ");
    // Exactly once: what was accepted is what was received.
    let mut a = accepted.clone();
    let mut g = got.clone();
    a.sort();
    g.sort();
    if drop_receiver {
        // Messages accepted but still queued when the receiver went away are dropped with it.
        assert!(g.iter().all(|v| a.contains(v)), "[mailbox_lossless] received {:?} but only {:?} were accepted", got, accepted);
    } else {
        assert_eq!(a, g, "[mailbox_lossless] accepted {:?} but received {:?}", accepted, got);
    }
    if close_by_receiver_after.is_none() {
        assert_eq!(got.len(), senders * per, "[mailbox_lossless] {} of {} messages received", got.len(), senders * per);
    }
    // Per-producer FIFO.
    for s in 0..senders {
        let mine: Vec<u32> = got.iter().copied().filter(|v| (*v as usize) / 100 == s).collect();
        let mut sorted = mine.clone();
        sorted.sort();
        assert_eq!(mine, sorted, "[mailbox_fifo] messages of producer {} received as {:?}", s, mine);
    }
    obs(format!("{:?}", got));
}

pub fn c12() -> Vec<Item> {
    let mut v = vec![];
    for (cap, senders, per, close, bq, bt) in [
        (1usize, 1usize, 3usize, None, 3usize, 5usize),
        (2, 1, 3, None, 3, 4),
        (1, 2, 2, None, 2, 3),
        (2, 2, 2, None, 2, 3),
        (1, 2, 2, Some(2usize), 2, 3),
        (1, 3, 1, None, 2, 3),
    ] {
        v.push(
            Item::new(&format!("channel/cap{}/{}x{}/close{:?}", cap, senders, per, close), 50_000, bq, bt, move || channel_body(cap, senders, per, close))
                .caps(300_000, 30_000_000),
        );
    }
    // The receiver is dropped while several senders are blocked on the full mailbox.
    for (cap, senders, per, after, bq, bt) in [(1usize, 2usize, 2usize, 1usize, 2usize, 3usize), (1, 3, 1, 0, 2, 3), (2, 3, 2, 1, 1, 2)] {
        v.push(
            Item::new(&format!("channel/cap{}/{}x{}/drop_receiver_after{}", cap, senders, per, after), 50_000, bq, bt, move || channel_body_x(cap, senders, per, Some(after), true))
                .caps(300_000, 30_000_000),
        );
    }
    v
}

// ---------------------------------------------------------------------------
// Executor-level harnesses
// ---------------------------------------------------------------------------

/// A future that completes on its second poll after having woken `others`.
struct Relay {
    polled: bool,
    wake: Vec<Arc<StdMutex<Option<Waker>>>>,
    me: Arc<StdMutex<Option<Waker>>>,
    done: Arc<AtomicUsize>,
    wait_for_wake: bool,
}
impl Future for Relay {
    type Output = ();
    fn poll(mut self: Pin<&mut Self>, cx: &mut TaskCx<'_>) -> Poll<()> {
        if !self.polled {
            self.polled = true;
            *self.me.lock().unwrap() = Some(cx.waker().clone());
            for w in &self.wake {
                if let Some(w) = w.lock().unwrap().take() {
                    w.wake();
                }
            }
            if self.wait_for_wake {
                return Poll::Pending;
            }
        }
        self.done.fetch_add(1, StdOrdering::SeqCst);
        Poll::Ready(())
    }
}

/// Executor-level run-to-quiescence: task 0 wakes two parked tasks in one poll
/// (fan-out, so both workers get work); `run` must return only when all
/// runnable tasks completed, and must return.
fn exec_body(workers: usize, second_round: bool) {
    let mut ex = Executor::new_multi_threaded(workers, SimulationContext {}, Signal::new());
    let done = Arc::new(AtomicUsize::new(0));
    let slots: Vec<Arc<StdMutex<Option<Waker>>>> = (0..3).map(|_| Arc::new(StdMutex::new(None))).collect();
    // Tasks 1 and 2 park on their first poll.
    for i in 1..3 {
        ex.spawn_and_forget(Relay { polled: false, wake: vec![], me: slots[i].clone(), done: done.clone(), wait_for_wake: true });
    }
    ex.run(Duration::ZERO).unwrap();
    assert_eq!(done.load(StdOrdering::SeqCst), 0, "[quiescence] parked tasks completed");
    // Task 0 wakes both in one poll.
    ex.spawn_and_forget(Relay { polled: false, wake: vec![slots[1].clone(), slots[2].clone()], me: slots[0].clone(), done: done.clone(), wait_for_wake: false });
    ex.run(Duration::ZERO).unwrap();
    assert_eq!(done.load(StdOrdering::SeqCst), 3, "[quiescence] run() returned Ok while runnable tasks were left ({} of 3 done)", done.load(StdOrdering::SeqCst));
    if second_round {
        ex.spawn_and_forget(Relay { polled: false, wake: vec![], me: slots[0].clone(), done: done.clone(), wait_for_wake: false });
        ex.run(Duration::ZERO).unwrap();
        assert_eq!(done.load(StdOrdering::SeqCst), 4, "[quiescence] second run() left its task unfinished");
    }
    drop(ex);
    obs(format!("done={}", done.load(StdOrdering::SeqCst)));
}

/// One task wakes `n` parked tasks in a single poll (n larger than the local
/// queue, so the overflow path into the injector is taken): every one of them
/// must run to completion before `run` returns.
fn exec_many_wakes_body(workers: usize, n: usize) {
    let mut ex = Executor::new_multi_threaded(workers, SimulationContext {}, Signal::new());
    let done = Arc::new(AtomicUsize::new(0));
    let slots: Vec<Arc<StdMutex<Option<Waker>>>> = (0..n + 1).map(|_| Arc::new(StdMutex::new(None))).collect();
    for i in 1..=n {
        ex.spawn_and_forget(Relay { polled: false, wake: vec![], me: slots[i].clone(), done: done.clone(), wait_for_wake: true });
    }
    ex.run(Duration::ZERO).unwrap();
    assert_eq!(done.load(StdOrdering::SeqCst), 0);
    ex.spawn_and_forget(Relay { polled: false, wake: slots[1..].to_vec(), me: slots[0].clone(), done: done.clone(), wait_for_wake: false });
    ex.run(Duration::ZERO).unwrap();
    let d = done.load(StdOrdering::SeqCst);
    assert_eq!(d, n + 1, "[quiescence] run() returned Ok after {} of {} woken tasks completed (tasks were lost)", d, n + 1);
    drop(ex);
    obs(format!("done={}", d));
}

pub fn exec_items() -> Vec<Item> {
    vec![
        Item::new("exec/2w/600wakes", 5_000_000, 0, 0, || exec_many_wakes_body(2, 600)).caps(50, 2_000),
        Item::new("exec/2w/fanout", 50_000, 3, 4, || exec_body(2, false)).caps(300_000, 30_000_000),
        Item::new("exec/2w/fanout+round2", 50_000, 2, 3, || exec_body(2, true)).caps(300_000, 30_000_000),
        Item::new("exec/3w/fanout", 50_000, 2, 3, || exec_body(3, false)).caps(300_000, 30_000_000),
    ]
}

struct DropWake {
    wake: Vec<Arc<StdMutex<Option<Waker>>>>,
    me: Arc<StdMutex<Option<Waker>>>,
    drops: Arc<AtomicUsize>,
    polls_after_drop: Arc<AtomicUsize>,
    dropping: Arc<AtomicUsize>,
}
impl Future for DropWake {
    type Output = ();
    fn poll(self: Pin<&mut Self>, cx: &mut TaskCx<'_>) -> Poll<()> {
        if self.dropping.load(StdOrdering::SeqCst) != 0 {
            self.polls_after_drop.fetch_add(1, StdOrdering::SeqCst);
        }
        *self.me.lock().unwrap() = Some(cx.waker().clone());
        Poll::Pending
    }
}
impl Drop for DropWake {
    fn drop(&mut self) {
        self.drops.fetch_add(1, StdOrdering::SeqCst);
        for w in &self.wake {
            let w = w.lock().unwrap().take();
            if let Some(w) = w {
                w.wake();
            }
        }
    }
}

/// Tasks that wake one another when dropped (the repository's drop-cycle
/// test), dropped with the executor under every schedule.
fn exec_drop_body(workers: usize) {
    let mut ex = Executor::new_multi_threaded(workers, SimulationContext {}, Signal::new());
    let drops = Arc::new(AtomicUsize::new(0));
    let pad = Arc::new(AtomicUsize::new(0));
    let dropping = Arc::new(AtomicUsize::new(0));
    let slots: Vec<Arc<StdMutex<Option<Waker>>>> = (0..3).map(|_| Arc::new(StdMutex::new(None))).collect();
    for i in 0..3 {
        let others = (0..3).filter(|j| *j != i).map(|j| slots[j].clone()).collect();
        ex.spawn_and_forget(DropWake { wake: others, me: slots[i].clone(), drops: drops.clone(), polls_after_drop: pad.clone(), dropping: dropping.clone() });
    }
    ex.run(Duration::ZERO).unwrap();
    dropping.store(1, StdOrdering::SeqCst);
    drop(ex);
    assert_eq!(drops.load(StdOrdering::SeqCst), 3, "[drop] {} of 3 task futures dropped with the executor", drops.load(StdOrdering::SeqCst));
    assert_eq!(pad.load(StdOrdering::SeqCst), 0, "[drop] a task was polled after the executor drop began");
    for s in &slots {
        s.lock().unwrap().take();
    }
    obs("dropped");
}

/// A task that panics while a sibling task is still running on another
/// worker; the executor is then dropped. The drop must return (all workers
/// joined) and the sibling's future must be released exactly once.
struct Busy {
    steps: usize,
    flag: Arc<shuttle::sync::atomic::AtomicUsize>,
    drops: Arc<AtomicUsize>,
}
impl Future for Busy {
    type Output = ();
    fn poll(self: Pin<&mut Self>, _cx: &mut TaskCx<'_>) -> Poll<()> {
        for _ in 0..self.steps {
            // Scheduling points inside the "handler".
            self.flag.fetch_add(1, shuttle::sync::atomic::Ordering::SeqCst);
        }
        Poll::Ready(())
    }
}
impl Drop for Busy {
    fn drop(&mut self) {
        self.drops.fetch_add(1, StdOrdering::SeqCst);
    }
}
struct Bomb {
    drops: Arc<AtomicUsize>,
}
impl Future for Bomb {
    type Output = ();
    fn poll(self: Pin<&mut Self>, _cx: &mut TaskCx<'_>) -> Poll<()> {
        panic!("bomb");
    }
}
impl Drop for Bomb {
    fn drop(&mut self) {
        self.drops.fetch_add(1, StdOrdering::SeqCst);
    }
}

/// Parks on its first poll; when woken behaves as a bomb or as a busy task.
struct ParkThen {
    polled: bool,
    me: Arc<StdMutex<Option<Waker>>>,
    bomb: bool,
    flag: Arc<shuttle::sync::atomic::AtomicUsize>,
    drops: Arc<AtomicUsize>,
}
impl Future for ParkThen {
    type Output = ();
    fn poll(mut self: Pin<&mut Self>, cx: &mut TaskCx<'_>) -> Poll<()> {
        if !self.polled {
            self.polled = true;
            *self.me.lock().unwrap() = Some(cx.waker().clone());
            return Poll::Pending;
        }
        if self.bomb {
            panic!("bomb");
        }
        for _ in 0..3 {
            self.flag.fetch_add(1, shuttle::sync::atomic::Ordering::SeqCst);
        }
        Poll::Ready(())
    }
}
impl Drop for ParkThen {
    fn drop(&mut self) {
        self.drops.fetch_add(1, StdOrdering::SeqCst);
    }
}

/// One task wakes a bomb and a busy task in a single poll, so that they run on
/// two workers; the panic is reported while the busy task may still be
/// running, and the executor is dropped right away.
fn exec_panic_fanout_body(workers: usize, bomb_first: bool) {
    let mut ex = Executor::new_multi_threaded(workers, SimulationContext {}, Signal::new());
    let drops = Arc::new(AtomicUsize::new(0));
    let done = Arc::new(AtomicUsize::new(0));
    let flag = Arc::new(shuttle::sync::atomic::AtomicUsize::new(0));
    let slots: Vec<Arc<StdMutex<Option<Waker>>>> = (0..3).map(|_| Arc::new(StdMutex::new(None))).collect();
    ex.spawn_and_forget(ParkThen { polled: false, me: slots[1].clone(), bomb: true, flag: flag.clone(), drops: drops.clone() });
    ex.spawn_and_forget(ParkThen { polled: false, me: slots[2].clone(), bomb: false, flag: flag.clone(), drops: drops.clone() });
    ex.run(Duration::ZERO).unwrap();
    let order = if bomb_first { vec![slots[1].clone(), slots[2].clone()] } else { vec![slots[2].clone(), slots[1].clone()] };
    ex.spawn_and_forget(Relay { polled: false, wake: order, me: slots[0].clone(), done: done.clone(), wait_for_wake: false });
    let r = ex.run(Duration::ZERO);
    assert!(matches!(r, Err(crate::executor::ExecutorError::Panic(..))), "[error_class] run() did not report the panic");
    drop(ex);
    for s in &slots {
        s.lock().unwrap().take();
    }
    assert_eq!(drops.load(StdOrdering::SeqCst), 2, "[drop] {} of 2 parked task futures dropped with the executor", drops.load(StdOrdering::SeqCst));
    obs("dropped after panic");
}

/// A timed `run` that may expire while tasks are still running on the
/// workers, followed at once by the drop of the executor: the drop must
/// return and release every task future exactly once.
fn exec_timeout_drop_body(workers: usize) {
    let mut ex = Executor::new_multi_threaded(workers, SimulationContext {}, Signal::new());
    let drops = Arc::new(AtomicUsize::new(0));
    let done = Arc::new(AtomicUsize::new(0));
    let flag = Arc::new(shuttle::sync::atomic::AtomicUsize::new(0));
    let slots: Vec<Arc<StdMutex<Option<Waker>>>> = (0..3).map(|_| Arc::new(StdMutex::new(None))).collect();
    ex.spawn_and_forget(ParkThen { polled: false, me: slots[1].clone(), bomb: false, flag: flag.clone(), drops: drops.clone() });
    ex.spawn_and_forget(ParkThen { polled: false, me: slots[2].clone(), bomb: false, flag: flag.clone(), drops: drops.clone() });
    ex.run(Duration::ZERO).unwrap();
    ex.spawn_and_forget(Relay { polled: false, wake: vec![slots[1].clone(), slots[2].clone()], me: slots[0].clone(), done: done.clone(), wait_for_wake: false });
    let r = ex.run(Duration::from_millis(1));
    let timed_out = matches!(r, Err(crate::executor::ExecutorError::Timeout));
    assert!(timed_out || r.is_ok(), "[error_class] unexpected result of a timed run");
    drop(ex);
    for s in &slots {
        s.lock().unwrap().take();
    }
    assert_eq!(drops.load(StdOrdering::SeqCst), 2, "[drop] {} of 2 task futures dropped with the executor", drops.load(StdOrdering::SeqCst));
    obs(format!("timed_out={}", timed_out));
}

fn exec_panic_drop_body(workers: usize) {
    let mut ex = Executor::new_multi_threaded(workers, SimulationContext {}, Signal::new());
    let drops = Arc::new(AtomicUsize::new(0));
    let flag = Arc::new(shuttle::sync::atomic::AtomicUsize::new(0));
    // Several busy tasks and one bomb: the bucket is shared between workers.
    for _ in 0..2 {
        ex.spawn_and_forget(Busy { steps: 3, flag: flag.clone(), drops: drops.clone() });
    }
    ex.spawn_and_forget(Bomb { drops: drops.clone() });
    ex.spawn_and_forget(Busy { steps: 3, flag: flag.clone(), drops: drops.clone() });
    let r = ex.run(Duration::ZERO);
    assert!(matches!(r, Err(crate::executor::ExecutorError::Panic(..))), "[error_class] run() did not report the panic");
    drop(ex);
    assert_eq!(drops.load(StdOrdering::SeqCst), 4, "[drop] {} of 4 task futures dropped with the executor", drops.load(StdOrdering::SeqCst));
    obs("dropped after panic");
}

pub fn exec_drop_items() -> Vec<Item> {
    vec![
        Item::new("exec_timeout_drop/2w", 50_000, 2, 3, || exec_timeout_drop_body(2)).caps(300_000, 30_000_000),
        Item::new("exec_timeout_drop/3w", 50_000, 1, 2, || exec_timeout_drop_body(3)).caps(300_000, 30_000_000),
        Item::new("exec_drop/2w", 50_000, 2, 3, || exec_drop_body(2)).caps(300_000, 30_000_000),
        Item::new("exec_drop/3w", 50_000, 1, 2, || exec_drop_body(3)).caps(300_000, 30_000_000),
    ]
}

// ---------------------------------------------------------------------------
// C14: the set of per-replier sub-tasks of a broadcast (wake-up protocol)
// ---------------------------------------------------------------------------

/// `plans[t]` lists the data sub-tasks thread `t` wakes (in order, repeats
/// allowed); afterwards it wakes its own sentinel sub-task. The parent drains
/// the scheduled sub-tasks and sleeps on its wake sink when there are none.
/// A lost notification shows up as a deadlock; a lost or duplicated sub-task
/// as an assertion failure.
fn task_set_body(data_tasks: usize, plans: Vec<Vec<usize>>, discard_first: bool) {
    use crate::util::task_set::TaskSet;
    use diatomic_waker::WakeSink;
    let nthreads = plans.len();
    let mut sink = WakeSink::new();
    let set = Arc::new(TaskSet::with_len(sink.source(), data_tasks + nthreads));
    if discard_first {
        // Spurious wake-ups left over from a previous broadcast are discarded.
        set.waker_of(0).wake_by_ref();
        set.discard_scheduled();
        assert!(!set.has_scheduled(), "[task_set] discard_scheduled left a scheduled task");
    }
    let mut hs = vec![];
    for (t, plan) in plans.iter().cloned().enumerate() {
        let set = set.clone();
        hs.push(shuttle::thread::spawn(move || {
            for idx in plan {
                set.waker_of(idx).wake_by_ref();
            }
            set.waker_of(data_tasks + t).wake_by_ref();
        }));
    }
    let mut seen = vec![0usize; data_tasks + nthreads];
    let mut batches = vec![];
    shuttle::future::block_on(async {
        loop {
            match set.take_scheduled(1) {
                Some(iter) => {
                    let batch: Vec<usize> = iter.collect();
                    let mut b = batch.clone();
                    b.sort();
                    b.dedup();
                    assert_eq!(b.len(), batch.len(), "[task_set] a sub-task appears twice in one drain: {:?}", batch);
                    for i in &batch {
                        seen[*i] += 1;
                    }
                    batches.push(batch);
                }
                None => {
                    if (0..nthreads).all(|t| seen[data_tasks + t] > 0) {
                        break;
                    }
                    let set2 = set.clone();
                    sink.wait_until(|| if set2.has_scheduled() { Some(()) } else { None }).await;
                }
            }
        }
    });
    for h in hs {
        h.join().unwrap();
    }
    for (t, plan) in plans.iter().enumerate() {
        for idx in plan {
            assert!(seen[*idx] > 0, "[task_set] sub-task {} woken by thread {} was never yielded to the parent (batches {:?})", idx, t, batches);
        }
    }
    assert!(set.take_scheduled(0).is_none(), "[task_set] sub-tasks left scheduled after everything was drained");
    obs(format!("{:?}", batches));
}

pub fn c14() -> Vec<Item> {
    vec![
        Item::new("task_set/1task/2wakers", 50_000, 3, 4, || task_set_body(1, vec![vec![0], vec![0]], false)).caps(300_000, 30_000_000),
        Item::new("task_set/2tasks/2wakers", 50_000, 3, 4, || task_set_body(2, vec![vec![0, 1], vec![1, 0]], false)).caps(300_000, 30_000_000),
        Item::new("task_set/2tasks/repeated", 50_000, 3, 4, || task_set_body(2, vec![vec![0, 0, 1], vec![1]], true)).caps(300_000, 30_000_000),
        Item::new("task_set/3tasks/3wakers", 50_000, 2, 3, || task_set_body(3, vec![vec![0], vec![1], vec![2]], false)).caps(300_000, 30_000_000),
    ]
}
