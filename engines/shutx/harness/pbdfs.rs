//! Preemption-bounded exhaustive scheduler for shuttle (iterative context
//! bounding): stateless DFS with prefix replay.
//!
//! At every scheduling point the options are `[current task if it can
//! continue] ++ the other runnable tasks in id order`. Choosing anything but
//! option 0 while the current task could have continued costs one preemption.
//! A task that announced a yield (spin hint) is not an option as long as
//! another task is runnable, and leaving it is free.

use std::collections::BTreeSet;
use std::panic::{self, AssertUnwindSafe};
use std::sync::{Arc, Mutex};
use std::time::Instant;

use shuttle::scheduler::{Schedule, Scheduler, Task, TaskId};

#[derive(Clone, Copy, Debug, PartialEq, Eq)]
pub struct Point {
    pub choice: u32,
    pub options: u32,
    /// Choosing a non-zero option here is a preemption.
    pub preemptible: bool,
}

#[derive(Default, Debug)]
pub struct Shared {
    pub taken: Vec<Point>,
    pub executions: u64,
    pub max_points: usize,
    pub exhausted: bool,
    pub capped: bool,
    pub divergence: Option<String>,
    pub preemptions_used_max: usize,
}

pub struct PbDfs {
    bound: usize,
    max_execs: u64,
    deadline: Option<Instant>,
    prefix: Vec<u32>,
    expected: Vec<Point>,
    step: usize,
    shared: Arc<Mutex<Shared>>,
    started: bool,
    /// Replay mode: run exactly one execution with the given choices.
    replay_only: bool,
}

impl PbDfs {
    pub fn new(bound: usize, max_execs: u64, deadline: Option<Instant>, shared: Arc<Mutex<Shared>>) -> Self {
        PbDfs {
            bound,
            max_execs,
            deadline,
            prefix: vec![],
            expected: vec![],
            step: 0,
            shared,
            started: false,
            replay_only: false,
        }
    }
    pub fn replay(choices: Vec<u32>, shared: Arc<Mutex<Shared>>) -> Self {
        PbDfs {
            bound: usize::MAX,
            max_execs: 1,
            deadline: None,
            prefix: choices,
            expected: vec![],
            step: 0,
            shared,
            started: false,
            replay_only: true,
        }
    }

    /// Computes the next prefix from the choices of the execution that just
    /// ended. Returns false when the bounded space is exhausted.
    fn backtrack(&mut self) -> bool {
        let sh = self.shared.lock().unwrap();
        let taken = &sh.taken;
        let mut pre: Vec<usize> = Vec::with_capacity(taken.len() + 1);
        let mut p = 0;
        pre.push(0);
        for t in taken.iter() {
            if t.choice != 0 && t.preemptible {
                p += 1;
            }
            pre.push(p);
        }
        for i in (0..taken.len()).rev() {
            let t = taken[i];
            if t.choice + 1 < t.options {
                let cost = pre[i] + if t.preemptible { 1 } else { 0 };
                if cost <= self.bound {
                    let mut np: Vec<u32> = taken[..i].iter().map(|x| x.choice).collect();
                    np.push(t.choice + 1);
                    self.expected = taken[..i].to_vec();
                    drop(sh);
                    self.prefix = np;
                    return true;
                }
            }
        }
        false
    }
}

impl Scheduler for PbDfs {
    fn new_execution(&mut self) -> Option<Schedule> {
        if self.started {
            {
                let mut sh = self.shared.lock().unwrap();
                sh.max_points = sh.max_points.max(sh.taken.len());
                let used = sh.taken.iter().filter(|t| t.choice != 0 && t.preemptible).count();
                sh.preemptions_used_max = sh.preemptions_used_max.max(used);
                if sh.divergence.is_some() {
                    return None;
                }
            }
            if self.replay_only {
                return None;
            }
            let execs = self.shared.lock().unwrap().executions;
            if execs >= self.max_execs || self.deadline.map_or(false, |d| Instant::now() > d) {
                self.shared.lock().unwrap().capped = true;
                return None;
            }
            if !self.backtrack() {
                self.shared.lock().unwrap().exhausted = true;
                return None;
            }
        }
        self.started = true;
        self.step = 0;
        let mut sh = self.shared.lock().unwrap();
        sh.taken.clear();
        sh.executions += 1;
        Some(Schedule::new(0))
    }

    fn next_task(&mut self, runnable: &[&Task], current: Option<TaskId>, is_yielding: bool) -> Option<TaskId> {
        let mut ids: Vec<TaskId> = runnable.iter().map(|t| t.id()).collect();
        ids.sort();
        let cur_runnable = current.map_or(false, |c| ids.contains(&c));
        let mut options: Vec<TaskId> = Vec::with_capacity(ids.len());
        let mut preemptible = false;
        if cur_runnable && !is_yielding {
            options.push(current.unwrap());
            preemptible = true;
        }
        for id in &ids {
            if Some(*id) != current {
                options.push(*id);
            }
        }
        if cur_runnable && is_yielding && options.is_empty() {
            options.push(current.unwrap());
        }
        // All shuttle tasks are coroutines of one OS thread, so
        // `std::thread::panicking()` is true for whichever task runs while one
        // task unwinds: a context switch at that moment would make unrelated
        // mutex guards poison their mutex. While the current task unwinds it is
        // therefore the only option (fewer schedules, no artefacts).
        if std::thread::panicking() && cur_runnable {
            options.clear();
            options.push(current.unwrap());
            preemptible = false;
        }
        let n = options.len() as u32;
        let mut choice = if self.step < self.prefix.len() { self.prefix[self.step] } else { 0 };
        let mut sh = self.shared.lock().unwrap();
        if choice >= n {
            sh.divergence = Some(format!(
                "replayed choice {} out of range ({} options) at scheduling point {}",
                choice, n, self.step
            ));
            choice = 0;
        }
        if let Some(e) = self.expected.get(self.step) {
            if e.options != n {
                sh.divergence = Some(format!(
                    "replay divergence at scheduling point {}: {} options, expected {}",
                    self.step, n, e.options
                ));
            }
        }
        sh.taken.push(Point { choice, options: n, preemptible });
        self.step += 1;
        Some(options[choice as usize])
    }

    fn next_u64(&mut self) -> u64 {
        0
    }
}

// ---------------------------------------------------------------------------
// Scenario driver
// ---------------------------------------------------------------------------

/// Observations of the current execution (harness bodies append to it).
pub static OBS: Mutex<Vec<String>> = Mutex::new(Vec::new());

pub fn obs(s: impl Into<String>) {
    OBS.lock().unwrap_or_else(|e| e.into_inner()).push(s.into());
}

pub struct Scenario {
    pub name: String,
    pub body: Arc<dyn Fn() + Send + Sync>,
    pub max_steps: usize,
}

#[derive(Debug, Default)]
pub struct ScenarioReport {
    pub name: String,
    pub bound: usize,
    pub executions: u64,
    pub max_points: usize,
    pub exhausted: bool,
    pub capped: bool,
    pub distinct_outcomes: usize,
    pub preemptions_used_max: usize,
    pub wall_s: f64,
    pub violation: Option<(Vec<u32>, String, Vec<String>)>,
    pub machinery: Option<String>,
}

fn config(max_steps: usize) -> shuttle::Config {
    let mut cfg = shuttle::Config::new();
    cfg.max_steps = shuttle::MaxSteps::FailAfter(max_steps);
    cfg.failure_persistence = shuttle::FailurePersistence::None;
    cfg.stack_size = 0x40000;
    cfg
}

fn panic_text(p: Box<dyn std::any::Any + Send>) -> String {
    if let Some(s) = p.downcast_ref::<&str>() {
        s.to_string()
    } else if let Some(s) = p.downcast_ref::<String>() {
        s.clone()
    } else {
        "<non-string panic>".to_string()
    }
}

/// Runs one schedule (given as a choice vector) and returns the observations
/// and the failure message, if any.
pub fn replay_once(sc: &Scenario, choices: &[u32]) -> (Vec<String>, Option<String>, Option<String>) {
    let shared = Arc::new(Mutex::new(Shared::default()));
    let sched = PbDfs::replay(choices.to_vec(), shared.clone());
    OBS.lock().unwrap_or_else(|e| e.into_inner()).clear();
    let body = sc.body.clone();
    let runner = shuttle::Runner::new(sched, config(sc.max_steps));
    let r = panic::catch_unwind(AssertUnwindSafe(|| {
        runner.run(move || body());
    }));
    let o = OBS.lock().unwrap_or_else(|e| e.into_inner()).clone();
    let div = shared.lock().unwrap().divergence.clone();
    (o, r.err().map(panic_text), div)
}

/// Explores every schedule of the scenario with at most `bound` preemptions.
pub fn explore(sc: &Scenario, bound: usize, max_execs: u64, budget_s: f64) -> ScenarioReport {
    let t0 = Instant::now();
    let shared = Arc::new(Mutex::new(Shared::default()));
    let deadline = Some(t0 + std::time::Duration::from_secs_f64(budget_s));
    let sched = PbDfs::new(bound, max_execs, deadline, shared.clone());
    let outcomes: Arc<Mutex<BTreeSet<String>>> = Arc::new(Mutex::new(BTreeSet::new()));
    let body = sc.body.clone();
    let outcomes2 = outcomes.clone();
    let runner = shuttle::Runner::new(sched, config(sc.max_steps));
    OBS.lock().unwrap_or_else(|e| e.into_inner()).clear();
    let r = panic::catch_unwind(AssertUnwindSafe(|| {
        runner.run(move || {
            OBS.lock().unwrap_or_else(|e| e.into_inner()).clear();
            body();
            let o = OBS.lock().unwrap_or_else(|e| e.into_inner()).join("|");
            outcomes2.lock().unwrap().insert(o);
        });
    }));
    let sh = shared.lock().unwrap();
    let mut rep = ScenarioReport {
        name: sc.name.clone(),
        bound,
        executions: sh.executions,
        max_points: sh.max_points.max(sh.taken.len()),
        exhausted: sh.exhausted,
        capped: sh.capped,
        distinct_outcomes: outcomes.lock().unwrap().len(),
        preemptions_used_max: sh.preemptions_used_max,
        wall_s: 0.0,
        violation: None,
        machinery: sh.divergence.clone(),
    };
    let failing: Vec<u32> = sh.taken.iter().map(|t| t.choice).collect();
    drop(sh);
    if let Err(p) = r {
        let msg = panic_text(p);
        if rep.machinery.is_none() {
            // Confirm: the same schedule must fail twice with identical observations.
            let (o1, f1, d1) = replay_once(sc, &failing);
            let (o2, f2, d2) = replay_once(sc, &failing);
            if d1.is_some() || d2.is_some() {
                rep.machinery = Some(format!("replay of the failing schedule diverged: {:?} {:?} (original failure: {})", d1, d2, msg));
            } else if f1.is_none() || f2.is_none() {
                rep.machinery = Some(format!("failure '{}' not reproduced on replay ({:?}, {:?})", msg, f1, f2));
            } else if o1 != o2 {
                rep.machinery = Some("replays of the failing schedule produced different observations".to_string());
            } else {
                rep.violation = Some((failing, f1.unwrap(), o1));
            }
        }
    }
    rep.wall_s = t0.elapsed().as_secs_f64();
    rep
}
