//! Simulation-level scenarios on the real multi-threaded executor: scenario
//! families and oracles of engine S, executed under shuttle.

use std::collections::BTreeMap;
use std::sync::{Arc, Mutex};

use super::check::Family;
use super::oracle;
use super::pbdfs::obs;
use super::props;
use super::world::{self, Scenario};
use super::Item;

static FIRST_SUMMARY: Mutex<BTreeMap<String, String>> = Mutex::new(BTreeMap::new());

fn find(fams: &[Family], fam: &str, label: &str) -> Scenario {
    let f = fams.iter().find(|f| f.name == fam).unwrap_or_else(|| panic!("family {} not found", fam));
    let s = f.scenarios.iter().find(|s| s.label == label).unwrap_or_else(|| panic!("scenario {} not found in {}", label, fam));
    Scenario { spec: s.spec.clone(), cmds: s.cmds.clone(), label: s.label.clone(), prelude: None }
}

fn sim_item(
    name: String,
    sc: Scenario,
    threads: usize,
    tags: &'static [&'static str],
    invariant: bool,
    bq: usize,
    bt: usize,
) -> Item {
    let mut spec = (*sc.spec).clone();
    spec.threads = threads;
    // Reference for the executor-independence clause of C04: the same scenario
    // on the single-threaded executor.
    let mut spec_st = spec.clone();
    spec_st.threads = 1;
    let sc_st = Arc::new(Scenario { spec: Arc::new(spec_st), cmds: sc.cmds.clone(), label: sc.label.clone(), prelude: None });
    let sc = Arc::new(Scenario { spec: Arc::new(spec), cmds: sc.cmds, label: sc.label, prelude: None });
    let key = name.clone();
    let key2 = name.clone();
    let prepare = move || {
        if invariant {
            let out = world::run_once(&sc_st, &[], false);
            let an = oracle::analyze(&sc_st, &out);
            FIRST_SUMMARY.lock().unwrap_or_else(|e| e.into_inner()).insert(key2.clone(), format!("{:?}", an.summary));
        }
    };
    Item::new(&name, 200_000, bq, bt, move || {
        let out = world::run_once(&sc, &[], false);
        let an = oracle::analyze(&sc, &out);
        for v in &an.viols {
            if tags.contains(&v.tag) || v.tag == "api_panic" {
                for e in &out.log {
                    obs(format!("{:?}", e));
                }
                panic!("[{}] {}", v.tag, v.msg);
            }
        }
        let summary = format!("{:?}", an.summary);
        if invariant {
            let mut g = FIRST_SUMMARY.lock().unwrap_or_else(|e| e.into_inner());
            match g.get(&key) {
                None => {
                    g.insert(key.clone(), summary.clone());
                }
                Some(f) => {
                    if *f != summary {
                        let f = f.clone();
                        drop(g);
                        panic!("[outcome_varies] handler invocations / results / sink contents on the multi-threaded executor differ from the single-threaded executor / another schedule: {} vs {}", f, summary);
                    }
                }
            }
        }
        obs(format!("{:?}|{:?}", an.orders, an.summary.results));
    })
    .prepare(prepare)
}

pub const TAGS_ALL_DELIVERY: &[&str] = &[
    "delivery_dup", "delivery_invented", "delivery_value", "delivery_lost", "sink_content", "sched_missed", "sched_dup",
    "half_handler", "pending_send", "report_exact", "error_class",
];

pub fn c04() -> Vec<Item> {
    let fams = props::c04("quick");
    let mut v = vec![];
    for (label, threads, bq, bt) in [
        ("fan/1", 2usize, 2usize, 3usize),
        ("pipeline/2", 2, 2, 3),
        ("two_producers", 2, 2, 3),
        ("contended/cap1/vol2", 2, 2, 3),
        ("query_fanout", 2, 2, 3),
        ("fan/1", 3, 1, 2),
    ] {
        let sc = find(&fams, "deterministic_benches", label);
        v.push(sim_item(format!("sim/{}/{}w", label, threads), sc, threads, TAGS_ALL_DELIVERY, true, bq, bt));
    }
    v.extend(super::chan::exec_items());
    v
}

/// C16 on the real multi-threaded executor: models whose init sends to their neighbours.
pub fn c16() -> Vec<Item> {
    let fams = props::c16("quick");
    let mut v = vec![];
    for (label, threads, bq, bt) in [("flat2/cap1/v0", 2usize, 2usize, 3usize), ("flat3/cap1/v1", 2, 2, 3), ("depth1x2/cap2/v2", 2, 2, 3), ("flat3/cap2/v0", 3, 1, 2)] {
        let sc = find(&fams, "hierarchies", label);
        v.push(sim_item(
            format!("sim/{}/{}w", label, threads),
            sc,
            threads,
            &["init_twice", "init_late", "init_foreign", "init_missing", "before_init", "delivery_lost", "delivery_dup", "half_handler", "pending_send", "report_exact", "error_class"],
            false,
            bq,
            bt,
        ));
    }
    v
}

pub fn c05() -> Vec<Item> {
    let fams = props::c05("quick");
    let mut v = vec![];
    for (label, threads, bq, bt) in [("hub", 2usize, 2usize, 3usize), ("fan/2ev", 2, 1, 2), ("two_producers/2ev", 2, 2, 3), ("mutual_init", 2, 2, 3)] {
        let sc = find(&fams, "isolation", label);
        v.push(sim_item(format!("sim/{}/{}w", label, threads), sc, threads, &["overlap", "before_init"], false, bq, bt));
    }
    v
}

pub fn c06() -> Vec<Item> {
    let fams = props::c06("quick");
    let mut v = vec![];
    for (label, threads, bq, bt) in [
        ("healthy/fan", 2usize, 2usize, 3usize),
        ("healthy/pipeline", 2, 2, 3),
        ("orphan/cap1/sends2", 2, 2, 3),
        ("query_loopback/direct", 2, 2, 3),
        ("mutual_flood/cap1", 2, 2, 3),
        ("orphan_plus_deadlock", 2, 2, 3),
        ("submodel_stall/depth1", 2, 2, 3),
        ("healthy/fan", 3, 1, 2),
    ] {
        let sc = find(&fams, "stall_reports", label);
        v.push(sim_item(format!("sim/{}/{}w", label, threads), sc, threads, &["report_exact", "error_class"], false, bq, bt));
    }
    v
}

pub fn c02() -> Vec<Item> {
    let fams = props::c02("quick");
    let mut v = vec![];
    for (label, bq, bt) in [("triangle/cap1/1ev", 2usize, 3usize), ("bcast_triangle/capB1/tag1", 2, 3), ("query_then_send/cap1/1ev", 2, 3)] {
        let sc = find(&fams, "causal_graphs", label);
        v.push(sim_item(format!("sim/{}/2w", label), sc, 2, &["causal"], false, bq, bt));
    }
    v
}

pub fn c03() -> Vec<Item> {
    let fams = props::c03("quick");
    let mut v = vec![];
    for (fam, label, bq, bt) in [
        ("port_kinds", "contended/cap1/vol2", 2usize, 3usize),
        ("port_kinds", "all_kinds/cap1/vol3", 1, 2),
        ("scheduler_batches", "batch/cap1/k3", 2, 3),
    ] {
        let sc = find(&fams, fam, label);
        v.push(sim_item(format!("sim/{}/2w", label), sc, 2, props::TAGS_DELIVERY, false, bq, bt));
    }
    v
}

pub fn c17() -> Vec<Item> {
    let fams = props::c17("quick");
    let mut v = vec![];
    for (label, bq, bt) in [("two_writers/cap1", 2usize, 3usize), ("two_writers/cap2", 2, 3), ("two_writers/cap3", 2, 3)] {
        let sc = find(&fams, "model_to_sink", label);
        v.push(sim_item(format!("sim/{}/2w", label), sc, 2, &["sink_order", "sink_content", "sink_capacity"], false, bq, bt));
    }
    v
}

pub fn c07() -> Vec<Item> {
    let fams = props::c07("quick");
    let mut v = vec![];
    for (fam, label, bq, bt) in [("mailbox_overflow", "overflow_x/cap1/k2", 2usize, 3usize), ("mailbox_overflow", "overflow_x/cap1/k3", 2, 3), ("mailbox_overflow", "overflow_x/cap2/k3", 2, 3), ("mailbox_overflow", "overflow/cap1/k3", 1, 2), ("model_origin", "model_origin#1", 1, 2)] {
        let sc = find(&fams, fam, label);
        v.push(sim_item(format!("sim/{}/2w", label), sc, 2, &["same_origin_order", "sched_missed"], false, bq, bt));
    }
    v
}

// Scenarios in which a model panics are not run under shuttle: all shuttle tasks
// are coroutines of one OS thread, so `std::thread::panicking()` is true for
// *every* task while one of them unwinds, and a context switch during the
// unwinding makes unrelated mutex guards poison their mutex (an artefact of
// the tool, not a behaviour of the code). Panic scenarios are covered by
// engine S and by real threads (C11).
pub fn c19() -> Vec<Item> {
    let fams = props::c19("quick");
    let mut v = vec![];
    for (label, bq, bt) in [("fan/drop@1", 2usize, 3usize), ("self_flood/drop@1", 2, 3), ("query_loop/drop@1", 2, 3), ("pending_actions/drop@4", 1, 2)] {
        let sc = find(&fams, "drop_points", label);
        v.push(sim_item(format!("sim/{}/2w", label), sc, 2, props::TAGS_DROP, false, bq, bt));
    }
    v.extend(super::chan::exec_drop_items());
    v
}
