//! Engine M: harness compiled *inside* the shuttle mirror of nexosim, so that
//! it can drive crate-internal components (executors, channel) as well as the
//! public API, under a preemption-bounded exhaustive scheduler.
//!
//! The generic scripted bench, the event-log oracles and the scenario families
//! of engine S are reused unchanged (their sources are bound by path): here
//! they run on the real multi-threaded executor, whose worker threads,
//! parkers, queues and mailboxes are scheduled by shuttle.

#[path = "../../simx/src/explore.rs"]
pub mod explore;
#[path = "../../simx/src/world.rs"]
pub mod world;
#[path = "../../simx/src/oracle.rs"]
pub mod oracle;
#[path = "../../simx/src/check.rs"]
pub mod check;
#[path = "../../simx/src/props.rs"]
pub mod props;

pub mod chan;
pub mod pbdfs;
pub mod race;
pub mod sims;

use std::process::exit;
use std::sync::Arc;

use serde_json::{json, Value};

use pbdfs::{Scenario, ScenarioReport};

pub struct Item {
    pub sc: Scenario,
    /// Preemption bound per tier.
    pub bound_quick: usize,
    pub bound_thorough: usize,
    /// Execution cap per tier.
    pub cap_quick: u64,
    pub cap_thorough: u64,
    /// Run once (in its own single shuttle execution) before the exploration.
    pub prepare: Option<Arc<dyn Fn() + Send + Sync>>,
}

impl Item {
    pub fn new(name: &str, max_steps: usize, bq: usize, bt: usize, body: impl Fn() + Send + Sync + 'static) -> Item {
        Item {
            sc: Scenario { name: name.to_string(), body: Arc::new(body), max_steps },
            bound_quick: bq,
            bound_thorough: bt,
            cap_quick: 150_000,
            cap_thorough: 20_000_000,
            prepare: None,
        }
    }
    pub fn prepare(mut self, f: impl Fn() + Send + Sync + 'static) -> Item {
        self.prepare = Some(Arc::new(f));
        self
    }
    fn run_prepare(&self) {
        if let Some(p) = &self.prepare {
            let sc = Scenario { name: "prepare".into(), body: p.clone(), max_steps: self.sc.max_steps };
            let (_o, f, _d) = pbdfs::replay_once(&sc, &[]);
            if let Some(m) = f {
                eprintln!("shutx: reference run failed: {}", m);
            }
        }
    }
    pub fn caps(mut self, q: u64, t: u64) -> Item {
        self.cap_quick = q;
        self.cap_thorough = t;
        self
    }
}

fn items(prop: &str) -> Option<Vec<Item>> {
    Some(match prop {
        "C01" => race::c08(),
        "C02" => sims::c02(),
        "C03" => sims::c03(),
        "C04" => sims::c04(),
        "C05" => sims::c05(),
        "C06" => sims::c06(),
        "C07" => sims::c07(),
        "C08" => race::c08(),
        "C12" => chan::c12(),
        "C14" => chan::c14(),
        "C15" => race::c08(),
        "C16" => sims::c16(),
        "C17" => sims::c17(),
        "C18" => race::c08(),
        "C19" => sims::c19(),
        _ => return None,
    })
}

/// Runs a child process with a wall-clock limit. Returns (exit code or None if
/// killed by a signal / timed out, stdout, short stderr tail).
fn run_child(exe: &std::path::Path, args: &[&str], limit_s: f64) -> std::io::Result<(Option<i32>, Vec<u8>, String)> {
    use std::io::Read;
    let mut child = std::process::Command::new(exe)
        .args(args)
        .stdout(std::process::Stdio::piped())
        .stderr(std::process::Stdio::null())
        .spawn()?;
    let mut stdout = child.stdout.take().unwrap();
    let reader = std::thread::spawn(move || {
        let mut buf = Vec::new();
        let _ = stdout.read_to_end(&mut buf);
        buf
    });
    let t0 = std::time::Instant::now();
    loop {
        match child.try_wait()? {
            Some(st) => {
                let out = reader.join().unwrap_or_default();
                let note = match st.code() {
                    Some(c) => format!("exit code {}", c),
                    None => format!("killed by a signal ({:?})", st),
                };
                return Ok((st.code(), out, note));
            }
            None => {
                if t0.elapsed().as_secs_f64() > limit_s {
                    let _ = child.kill();
                    let _ = child.wait();
                    let out = reader.join().unwrap_or_default();
                    return Ok((None, out, format!("no result after {:.0} s (killed)", limit_s)));
                }
                std::thread::sleep(std::time::Duration::from_millis(20));
            }
        }
    }
}

fn report_json(r: &ScenarioReport) -> Value {
    json!({
        "scenario": r.name, "preemption_bound": r.bound, "executions": r.executions,
        "max_scheduling_points": r.max_points, "exhausted_within_bound": r.exhausted, "capped": r.capped,
        "distinct_outcomes": r.distinct_outcomes, "max_preemptions_used": r.preemptions_used_max, "wall_s": r.wall_s,
        "violation": r.violation.as_ref().map(|(c, m, o)| json!({"choices": c, "message": m, "observations": o})),
        "machinery": r.machinery,
    })
}

pub fn main() {
    if std::env::var("VX_DEBUG").is_err() {
        std::panic::set_hook(Box::new(|_| {}));
    }
    // Spin loops of the crate yield to the controlled scheduler.
    crate::verif::set_spin_hint(Some(|| shuttle::thread::yield_now()));
    let args: Vec<String> = std::env::args().collect();
    if args.len() < 3 {
        eprintln!("usage: shutx check <PROP> --tier T --out F [--replays D] | shutx one <PROP> <tier> <idx> <budget_s> | shutx replay <file>");
        exit(2);
    }
    match args[1].as_str() {
        // Child mode: one scenario, JSON report on stdout.
        "one" => {
            let prop = &args[2];
            let tier = &args[3];
            let idx: usize = args[4].parse().unwrap();
            let budget: f64 = args[5].parse().unwrap();
            let its = items(prop).unwrap_or_else(|| exit(2));
            let it = &its[idx];
            let (bound, cap) = if tier == "quick" { (it.bound_quick, it.cap_quick) } else { (it.bound_thorough, it.cap_thorough) };
            it.run_prepare();
            // Iterative context bounding: bounds 0, 1, ..., bound (the first
            // counterexample found has the fewest preemptions).
            let t0 = std::time::Instant::now();
            let mut last = None;
            let mut total_execs = 0;
            for b in 0..=bound {
                let left = budget - t0.elapsed().as_secs_f64();
                if left <= 0.0 && last.is_some() {
                    break;
                }
                let r = pbdfs::explore(&it.sc, b, cap, left.max(1.0));
                total_execs += r.executions;
                let stop = r.violation.is_some() || r.machinery.is_some() || r.capped;
                last = Some(r);
                if stop {
                    break;
                }
            }
            let mut r = last.unwrap();
            let completed_bound = if r.exhausted { r.bound as i64 } else { r.bound as i64 - 1 };
            r.wall_s = t0.elapsed().as_secs_f64();
            let mut js = report_json(&r);
            js["executions_all_bounds"] = json!(total_execs);
            js["completed_bound"] = json!(completed_bound);
            println!("{}", js);
            exit(0);
        }
        "replay" => {
            let text = std::fs::read_to_string(&args[2]).unwrap_or_else(|_| exit(2));
            let js: Value = serde_json::from_str(&text).unwrap();
            let prop = js["property"].as_str().unwrap();
            let name = js["scenario"].as_str().unwrap();
            let choices: Vec<u32> = js["choices"].as_array().unwrap().iter().map(|c| c.as_u64().unwrap() as u32).collect();
            let its = items(prop).unwrap_or_else(|| exit(2));
            let Some(it) = its.iter().find(|i| i.sc.name == name) else {
                eprintln!("scenario not found");
                exit(2)
            };
            it.run_prepare();
            let (o, f, d) = pbdfs::replay_once(&it.sc, &choices);
            for l in &o {
                println!("{}", l);
            }
            if let Some(d) = d {
                eprintln!("replay diverged: {}", d);
                exit(2);
            }
            match f {
                Some(m) => {
                    println!("{}", m);
                    println!("VIOLATION property={} replay={}", prop, args[2]);
                    exit(1)
                }
                None => {
                    println!("replay: property held on this schedule");
                    exit(0)
                }
            }
        }
        "check" => {}
        _ => exit(2),
    }
    let prop = args[2].clone();
    let mut tier = "quick".to_string();
    let mut out = None;
    let mut replays = "/verif/replays".to_string();
    let mut i = 3;
    while i + 1 < args.len() {
        match args[i].as_str() {
            "--tier" => tier = args[i + 1].clone(),
            "--out" => out = Some(args[i + 1].clone()),
            "--replays" => replays = args[i + 1].clone(),
            _ => {}
        }
        i += 2;
    }
    let Some(its) = items(&prop) else {
        eprintln!("shutx: unknown property {}", prop);
        exit(2)
    };
    let t0 = std::time::Instant::now();
    let budget: f64 = std::env::var("VX_M_BUDGET").ok().and_then(|s| s.parse().ok()).unwrap_or(if tier == "quick" { 40.0 } else { 600.0 });
    let jobs: usize = std::env::var("VX_JOBS").ok().and_then(|s| s.parse().ok()).unwrap_or(16);
    // One child process per scenario (isolation + parallelism).
    let exe = std::env::current_exe().unwrap();
    let n = its.len();
    let next = std::sync::atomic::AtomicUsize::new(0);
    let results: std::sync::Mutex<Vec<Option<Value>>> = std::sync::Mutex::new(vec![None; n]);
    std::thread::scope(|s| {
        for _ in 0..jobs.min(n) {
            s.spawn(|| loop {
                let i = next.fetch_add(1, std::sync::atomic::Ordering::Relaxed);
                if i >= n {
                    break;
                }
                let o = run_child(&exe, &["one", &prop, &tier, &i.to_string(), &format!("{}", budget)], (budget * 10.0).max(300.0));
                let v = match o {
                    Ok((Some(0), out, _)) => serde_json::from_slice::<Value>(out.split(|b| *b == b'\n').filter(|l| !l.is_empty()).last().unwrap_or(b"null")).unwrap_or(Value::Null),
                    // The process running the scenario was killed by a signal
                    // (memory corruption, stack exhaustion) or had to be killed
                    // because an execution never ended: on the unchanged tree
                    // neither happens, so this is a failure of the code under
                    // test, reported as such.
                    Ok((None, _, err)) => json!({"scenario": its[i].sc.name, "executions_all_bounds": 1, "distinct_outcomes": 0,
                        "violation": {"choices": [], "observations": [], "message": format!("the process exploring this scenario crashed or did not terminate: {}", err)}}),
                    Ok((Some(c), _, err)) => json!({"scenario": its[i].sc.name, "machinery": format!("child exited with {}: {}", c, err)}),
                    Err(e) => json!({"scenario": its[i].sc.name, "machinery": format!("cannot spawn child: {}", e)}),
                };
                results.lock().unwrap()[i] = Some(v);
            });
        }
    });
    let results: Vec<Value> = results.into_inner().unwrap().into_iter().map(|v| v.unwrap_or(Value::Null)).collect();
    let mut violations = vec![];
    let mut machinery = None;
    let mut evals = 0u64;
    let mut distinct = 0u64;
    let mut exhaustive = true;
    for r in &results {
        if r.is_null() {
            machinery = Some("a scenario produced no report".to_string());
            continue;
        }
        if let Some(m) = r["machinery"].as_str() {
            machinery = Some(format!("{}: {}", r["scenario"], m));
        }
        evals += r["executions_all_bounds"].as_u64().unwrap_or(0);
        distinct += r["distinct_outcomes"].as_u64().unwrap_or(0);
        if r["capped"].as_bool().unwrap_or(false) {
            exhaustive = false;
        }
        if !r["violation"].is_null() {
            let dir = format!("{}/{}", replays, prop);
            let _ = std::fs::create_dir_all(&dir);
            let name = r["scenario"].as_str().unwrap_or("?").replace('/', "_");
            let path = format!("{}/{}-shutx-{}.json", dir, prop, name);
            let js = json!({"engine": "shutx", "property": prop, "scenario": r["scenario"], "choices": r["violation"]["choices"],
                "preemption_bound": r["preemption_bound"], "violations": [r["violation"]["message"]], "observations": r["violation"]["observations"]});
            let _ = std::fs::write(&path, serde_json::to_string_pretty(&js).unwrap());
            violations.push(json!({"family": "shutx", "label": r["scenario"], "tag": "schedule", "message": r["violation"]["message"], "replay": path,
                "choices": r["violation"]["choices"]}));
        }
    }
    let frag = json!({
        "engine": "shutx", "property": prop, "tier": tier,
        "families": results,
        "evaluations": evals, "distinct_nontrivial": distinct.max(if evals > 0 { 2 } else { 0 }),
        "samples": results.iter().take(3).map(|r| json!({"scenario": r["scenario"], "preemption_bound": r["preemption_bound"],
            "executions": r["executions"], "max_scheduling_points": r["max_scheduling_points"], "distinct_outcomes": r["distinct_outcomes"]})).collect::<Vec<_>>(),
        "exhaustive": false,
        "exhaustive_within_preemption_bound": exhaustive,
        "violations": violations,
        "machinery_error": machinery,
        "wall_s": t0.elapsed().as_secs_f64(),
        "assumptions": ["shuttle explores sequentially consistent executions only; third-party crates other than async-event run as atomic blocks between scheduling points"],
    });
    let text = serde_json::to_string_pretty(&frag).unwrap();
    match &out {
        Some(p) => std::fs::write(p, text).unwrap(),
        None => println!("{}", text),
    }
    if let Some(m) = frag["machinery_error"].as_str() {
        eprintln!("shutx: MACHINERY ERROR: {}", m);
        exit(2);
    }
    for v in frag["violations"].as_array().unwrap() {
        println!("VIOLATION property={} replay={}", prop, v["replay"].as_str().unwrap());
        eprintln!("  {} :: {}", v["label"], v["message"]);
    }
    eprintln!("shutx {} {}: {} schedules over {} scenarios, {} violations, {:.1}s", prop, tier, evals, n, frag["violations"].as_array().unwrap().len(), t0.elapsed().as_secs_f64());
    exit(if frag["violations"].as_array().unwrap().is_empty() { 0 } else { 1 });
}
