//! C08 (race part): Scheduler handles used from foreign threads while the
//! simulation is stepping.

use std::sync::Arc;
use std::time::Duration;

use super::pbdfs::obs;
use super::world::{self, mt, off, BenchSpec, Ev, Msg, Node, NodeSpec, Op, W};
use super::Item;

fn spec() -> Arc<BenchSpec> {
    let a = NodeSpec::new("A", 4).script(1, vec![Op::ReadTime]);
    Arc::new(BenchSpec::new(vec![a]))
}

/// The main thread performs `main_cmds`; a foreign thread schedules an event
/// at absolute time `at` (and reads the time); afterwards the main thread
/// steps until nothing is pending. Oracle: accepted => fires exactly once at
/// exactly `at`; rejected => never fires; the simulation time never decreases.
/// Which scheduling entry point the foreign thread uses.
#[derive(Clone, Copy, Debug)]
pub enum Variant {
    Event,
    Keyed,
    Periodic,
    KeyedPeriodic,
    SourceAction,
}

fn race_body(at: i64, pre_pending: Option<i64>, until: i64, relative: bool) {
    race_body_v(at, pre_pending, until, relative, Variant::Event)
}

fn race_body_v(at: i64, pre_pending: Option<i64>, until: i64, relative: bool, variant: Variant) {
    let w = W::new(false);
    let sp = spec();
    let mut b = world::build(&sp, &w);
    let mut src: nexosim::ports::EventSource<Msg> = nexosim::ports::EventSource::new();
    src.connect(Node::on_event, &b.addrs[0]);
    // A period far beyond the horizon: only the first occurrence is observed.
    let period = Duration::from_secs(1000);
    let simu = b.simu.as_mut().expect("init failed");
    let sched = b.sched.clone().unwrap();
    if let Some(p) = pre_pending {
        sched.schedule_event(mt(p), Node::on_event, Msg::new(&w, 900, 1, 0), &b.addrs[0]).unwrap();
    }
    let addr = b.addrs[0].clone();
    let w2 = w.clone();
    let sched2 = sched.clone();
    let h = shuttle::thread::spawn(move || {
        let t_before = off(sched2.time());
        let msg = Msg::new(&w2, 901, 1, 0);
        macro_rules! go {
            ($dl:expr) => {
                match variant {
                    Variant::Event => sched2.schedule_event($dl, Node::on_event, msg, &addr),
                    Variant::Keyed => sched2.schedule_keyed_event($dl, Node::on_event, msg, &addr).map(|_| ()),
                    Variant::Periodic => sched2.schedule_periodic_event($dl, period, Node::on_event, msg, &addr),
                    Variant::KeyedPeriodic => sched2.schedule_keyed_periodic_event($dl, period, Node::on_event, msg, &addr).map(|_| ()),
                    Variant::SourceAction => sched2.schedule($dl, src.event(msg)),
                }
            };
        }
        let res = if relative { go!(Duration::from_nanos(at as u64)) } else { go!(mt(at)) };
        let t_after = off(sched2.time());
        assert!(t_after >= t_before, "[time_backwards] a foreign reader saw the time go from {} to {}", t_before, t_after);
        (t_before, res.is_ok(), t_after)
    });
    let mut times = vec![off(simu.time())];
    simu.step_until(mt(until)).unwrap();
    times.push(off(simu.time()));
    let (t_before, accepted, t_after) = h.join().unwrap();
    // Drain whatever is still pending.
    for _ in 0..4 {
        simu.step().unwrap();
        times.push(off(simu.time()));
    }
    for win in times.windows(2) {
        assert!(win[1] >= win[0], "[time_backwards] simulation time went from {} to {} (times {:?})", win[0], win[1], times);
    }
    let log = w.take_log();
    let fired: Vec<i64> = log
        .iter()
        .filter_map(|e| match e {
            Ev::HS { id: 901, t, .. } => Some(*t),
            _ => None,
        })
        .collect();
    // Clock gating (C18): the times passed to synchronize never decrease and no
    // time is synchronised twice by the stepping calls of this scenario.
    let syncs: Vec<i64> = log.iter().filter_map(|e| if let Ev::Sync(t) = e { Some(*t) } else { None }).collect();
    for win in syncs.windows(2) {
        assert!(win[1] > win[0], "[sync_monotone] synchronize({}) was called after synchronize({}) (all calls: {:?})", win[1], win[0], syncs);
    }
    let mut last = i64::MIN;
    for e in &log {
        if let Ev::HS { t, .. } | Ev::TimeRead { t, .. } = e {
            assert!(*t >= last, "[time_backwards] handlers observed time {} after {}", t, last);
            last = *t;
        }
    }
    if accepted {
        let deadline = if relative { None } else { Some(at) };
        let periodic = matches!(variant, Variant::Periodic | Variant::KeyedPeriodic);
        if periodic {
            // Later occurrences (one period apart) may have been reached by the draining steps.
            assert!(!fired.is_empty(), "[sched_missed] accepted periodic request (deadline {:?}) never fired", deadline);
            for (k, f) in fired.iter().enumerate() {
                assert!(*f == fired[0] + k as i64 * period.as_nanos() as i64, "[sched_wrong_time] periodic occurrences at {:?}", fired);
            }
        } else {
            assert!(fired.len() == 1, "[sched_missed] accepted request (deadline {:?}, scheduled while time was in [{}, {}]) fired {:?}", deadline, t_before, t_after, fired);
        }
        if let Some(d) = deadline {
            assert!(fired[0] == d, "[sched_wrong_time] request accepted for t={} fired at t={}", d, fired[0]);
            assert!(t_before < d, "[sched_validation] request for t={} accepted although the time was already {}", d, t_before);
        } else {
            assert!(fired[0] > t_before && fired[0] <= t_after + at, "[sched_wrong_time] relative request (+{}) accepted in [{}, {}] fired at {}", at, t_before, t_after, fired[0]);
        }
    } else {
        assert!(fired.is_empty(), "[sched_validation] rejected request fired at {:?}", fired);
        assert!(!relative, "[sched_validation] a relative request with a positive delay was rejected");
        assert!(t_after >= at, "[sched_validation] request for t={} rejected although the time was at most {}", at, t_after);
    }
    obs(format!("accepted={} fired={:?} times={:?}", accepted, fired, times));
    drop(b);
}

pub fn c08() -> Vec<Item> {
    let mut v = vec![];
    for (vname, variant) in [
        ("keyed", Variant::Keyed),
        ("periodic", Variant::Periodic),
        ("keyed_periodic", Variant::KeyedPeriodic),
        ("source_action", Variant::SourceAction),
    ] {
        v.push(Item::new(&format!("race/{}/abs2/until3", vname), 50_000, 2, 3, move || race_body_v(2, None, 3, false, variant)).caps(400_000, 50_000_000));
        v.push(Item::new(&format!("race/{}/abs2/pending1/until3", vname), 50_000, 2, 3, move || race_body_v(2, Some(1), 3, false, variant)).caps(400_000, 50_000_000));
    }
    for (name, at, pre, until, rel) in [
        ("race/abs2/until3", 2i64, None, 3i64, false),
        ("race/abs3/until3", 3, None, 3, false),
        ("race/abs2/pending1/until3", 2, Some(1), 3, false),
        ("race/abs2/pending3/until3", 2, Some(3), 3, false),
        ("race/rel1/pending2/until3", 1, Some(2), 3, true),
    ] {
        v.push(Item::new(name, 50_000, 3, 4, move || race_body(at, pre, until, rel)).caps(400_000, 50_000_000));
    }
    v
}
