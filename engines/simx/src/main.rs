mod check;
mod explore;
mod oracle;
mod props;
mod world;

use std::process::exit;

use check::{run_families, Family};

fn families(prop: &str, tier: &str) -> Option<Vec<Family>> {
    Some(match prop {
        "C01" => props::with_flavours(props::c01(tier), &["deadline_boundaries"], tier),
        "C02" => props::c02(tier),
        "C03" => props::with_flavours(props::c03(tier), &["port_kinds", "connection_orders", "scheduler_batches"], tier),
        "C04" => props::c04(tier),
        "C05" => props::c05(tier),
        "C06" => props::c06(tier),
        "C07" => props::with_flavours(props::c07(tier), &["driver_origin", "model_origin"], tier),
        "C08" => props::with_flavours(props::c08(tier), &["request_validation"], tier),
        "C09" => { let f = props::c09(tier); let names: Vec<&str> = f.iter().map(|x| x.name).collect(); props::with_flavours(f, &names, tier) }
        "C10" => { let f = props::c10(tier); let names: Vec<&str> = f.iter().map(|x| x.name).collect(); props::with_flavours(f, &names, tier) }
        "C11" => props::c11(tier),
        "C14" => { let f = props::c14(tier); let names: Vec<&str> = f.iter().map(|x| x.name).collect(); props::with_flavours(f, &names, tier) }
        "C16" => props::c16(tier),
        "C17" => props::c17(tier),
        "C18" => props::c18(tier),
        "C19" => props::c19(tier),
        // The scheduler queue as the simulation uses it: FIFO among equal (time, origin) keys.
        "C20" => props::c07(tier).into_iter().filter(|f| f.name == "driver_origin" || f.name == "model_origin" || f.name == "abs_and_rel").collect(),
        _ => return None,
    })
}

fn usage() -> ! {
    eprintln!("usage: simx check <PROP> --tier quick|thorough --out <fragment.json> [--replays <dir>] [--budget <s>]\n       simx replay <file.json>");
    exit(2)
}

fn main() {
    // Panics inside model code are part of the scenarios: keep them quiet.
    std::panic::set_hook(Box::new(|_| {}));
    let args: Vec<String> = std::env::args().collect();
    if args.len() < 3 {
        usage();
    }
    match args[1].as_str() {
        "check" => {
            let prop = args[2].clone();
            let mut tier = "quick".to_string();
            let mut out = None;
            let mut replays = "/verif/replays".to_string();
            let mut budget: Option<f64> = None;
            let mut i = 3;
            while i < args.len() {
                match args[i].as_str() {
                    "--tier" => {
                        tier = args[i + 1].clone();
                        i += 2;
                    }
                    "--out" => {
                        out = Some(args[i + 1].clone());
                        i += 2;
                    }
                    "--replays" => {
                        replays = args[i + 1].clone();
                        i += 2;
                    }
                    "--budget" => {
                        budget = args[i + 1].parse().ok();
                        i += 2;
                    }
                    _ => usage(),
                }
            }
            let Some(fams) = families(&prop, &tier) else {
                eprintln!("simx: unknown property {}", prop);
                exit(2)
            };
            if let Some(o) = &out {
                let _ = check::OUT_PATH.set(o.clone());
            }
            let budget = budget.unwrap_or(if tier == "quick" { 40.0 } else { 450.0 });
            let rep = run_families(&prop, &tier, fams, budget, &format!("{}/{}", replays, prop));
            let js = rep.to_json();
            let text = serde_json::to_string_pretty(&js).unwrap();
            match out {
                Some(p) => std::fs::write(p, text).unwrap(),
                None => println!("{}", text),
            }
            if let Some(m) = &rep.machinery_error {
                eprintln!("simx: MACHINERY ERROR: {}", m);
                exit(2);
            }
            for v in &rep.violations {
                println!("VIOLATION property={} replay={}", prop, v.replay);
                eprintln!("  [{}] {} :: {}", v.tag, v.label, v.msg);
            }
            eprintln!(
                "simx {} {}: {} executions, {} distinct outcomes, {} violations, {:.1}s",
                prop,
                tier,
                rep.evaluations,
                rep.distinct_nontrivial,
                rep.violations.len(),
                rep.wall_s
            );
            exit(if rep.violations.is_empty() { 0 } else { 1 });
        }
        "stats" => {
            // simx stats <PROP> : histogram of command results over the default schedule of every scenario
            // (vacuity audit: do the families really produce the situations they are meant to produce?).
            let fams = families(&args[2], "quick").unwrap();
            for fam in &fams {
                let mut hist: std::collections::BTreeMap<String, u64> = Default::default();
                let mut events: std::collections::BTreeMap<&'static str, u64> = Default::default();
                for sc in &fam.scenarios {
                    let (sc2, controlled);
                    let scr = match fam.uncontrolled {
                        Some((threads, _)) => {
                            let mut spec2 = (*sc.spec).clone();
                            spec2.threads = threads;
                            sc2 = world::Scenario { spec: std::sync::Arc::new(spec2), cmds: sc.cmds.clone(), label: sc.label.clone(), prelude: sc.prelude.clone() };
                            controlled = false;
                            &sc2
                        }
                        None => {
                            controlled = true;
                            sc
                        }
                    };
                    let out = world::run_once(scr, &[], controlled);
                    for r in &out.results {
                        let k = match r {
                            world::Res::Err(e) => format!("Err({})", e.kind()),
                            world::Res::SchedErr(e) => format!("SchedErr({:?})", e),
                            world::Res::Panicked(m) => format!("Panicked({})", m.chars().take(160).collect::<String>()),
                            world::Res::Replies(v) => format!("Replies(n={})", v.len()),
                            other => format!("{:?}", other),
                        };
                        *hist.entry(k).or_insert(0) += 1;
                    }
                    for e in &out.log {
                        let k = match e {
                            world::Ev::HS { .. } => "handler",
                            world::Ev::Sync(_) => "sync",
                            world::Ev::Cancel { .. } => "cancel",
                            world::Ev::Fault { .. } => "fault",
                            world::Ev::Blocked(_) => "blocked",
                            world::Ev::QryE { .. } => "query_done",
                            world::Ev::Connect { .. } => "connect",
                            _ => continue,
                        };
                        *events.entry(k).or_insert(0) += 1;
                    }
                }
                println!("{} ({} scenarios)\n   results {:?}\n   events {:?}", fam.name, fam.scenarios.len(), hist, events);
            }
            exit(0);
        }
        "debug" => {
            // simx debug <PROP> <family> <label> : explore one scenario, print outcome statistics and one log.
            let fams = families(&args[2], "quick").unwrap();
            let fam = fams.iter().find(|f| f.name == args[3]).expect("family");
            world::set_base_secs(fam.base_secs);
            let sc = fam.scenarios.iter().find(|s| s.label == args[4]).expect("scenario");
            let mut outcomes = std::collections::BTreeMap::new();
            let mut first = None;
            let st = explore::explore(fam.dev_bound, fam.max_execs, |prefix| {
                let out = world::run_once(sc, prefix, true);
                let an = oracle::analyze(sc, &out);
                *outcomes.entry(format!("{:?}", an.orders)).or_insert(0u64) += 1;
                if first.is_none() {
                    first = Some(out.log.clone());
                }
                if std::env::var("VX_TRACE").is_ok() {
                    println!("prefix {:?} taken {:?}", prefix, out.chooser.taken);
                }
                Ok((out.chooser, true))
            });
            println!("{:?}", st);
            for (k, v) in &outcomes {
                println!("{:8} {}", v, k);
            }
            for e in first.unwrap() {
                println!("{:?}", e);
            }
            exit(0);
        }
        "replay" => {
            let text = std::fs::read_to_string(&args[2]).unwrap_or_else(|e| {
                eprintln!("cannot read {}: {}", args[2], e);
                exit(2)
            });
            let js: serde_json::Value = serde_json::from_str(&text).unwrap();
            let prop = js["property"].as_str().unwrap().to_string();
            let fam_name = js["family"].as_str().unwrap().to_string();
            let idx = js["scenario_index"].as_u64().unwrap() as usize;
            let choices: Vec<u16> = js["choices"]
                .as_array()
                .unwrap()
                .iter()
                .map(|c| c.as_u64().unwrap() as u16)
                .collect();
            // The scenario is regenerated from the family enumeration (both tiers are tried).
            for tier in ["quick", "thorough"] {
                let Some(fams) = families(&prop, tier) else { exit(2) };
                let Some(fam) = fams.iter().find(|f| f.name == fam_name) else { continue };
                let Some(sc) = fam.scenarios.get(idx) else { continue };
                if Some(sc.label.as_str()) != js["label"].as_str() {
                    continue;
                }
                world::set_base_secs(fam.base_secs);
                // Watchdog: a replayed hang must not hang the replay.
                let hang_s: f64 = std::env::var("VX_HANG_S").ok().and_then(|s| s.parse().ok()).unwrap_or(20.0);
                let file = args[2].clone();
                let prop2 = prop.clone();
                std::thread::spawn(move || {
                    std::thread::sleep(std::time::Duration::from_secs_f64(hang_s));
                    println!("[hang] a call did not return within {} s", hang_s);
                    println!("VIOLATION property={} replay={}", prop2, file);
                    exit(1);
                });
                if let Some(pre) = js.get("preceding_simulation") {
                    if let (Some(pi), Some(pc)) = (pre["scenario_index"].as_u64(), pre["choices"].as_array()) {
                        let pc: Vec<u16> = pc.iter().map(|c| c.as_u64().unwrap() as u16).collect();
                        if let Some(psc) = fam.scenarios.get(pi as usize) {
                            let _ = world::run_once(psc, &pc, true);
                        }
                    }
                }
                let out = world::run_once(sc, &choices, true);
                let an = oracle::analyze(sc, &out);
                for e in &out.log {
                    println!("{:?}", e);
                }
                let v = check::selected(fam, sc, &out, &an);
                if v.is_empty() {
                    println!("replay: property held on this execution");
                    exit(0);
                }
                for x in &v {
                    println!("[{}] {}", x.tag, x.msg);
                }
                println!("VIOLATION property={} replay={}", prop, args[2]);
                exit(1);
            }
            eprintln!("replay: scenario not found");
            exit(2);
        }
        _ => usage(),
    }
}
