mod explore;
mod world;

use std::sync::Arc;
use world::*;

fn main() {
    std::panic::set_hook(Box::new(|_| {}));
    // Fan-out / fan-in smoke bench: S -> {B, C} -> D, cap(D)=1.
    let s = NodeSpec::new("S", 2)
        .script(1, vec![Op::Send { port: 0, tag: 2, val: Val::In }])
        .out(vec![
            Conn::To { node: 1, mode: Mode::Plain },
            Conn::To { node: 2, mode: Mode::Plain },
        ]);
    let b = NodeSpec::new("B", 2)
        .script(2, vec![
            Op::Send { port: 0, tag: 3, val: Val::InPlus(10) },
            Op::Send { port: 0, tag: 3, val: Val::InPlus(20) },
        ])
        .out(vec![Conn::To { node: 3, mode: Mode::Plain }]);
    let c = NodeSpec::new("C", 2)
        .script(2, vec![
            Op::Send { port: 0, tag: 3, val: Val::InPlus(30) },
            Op::Send { port: 0, tag: 3, val: Val::InPlus(40) },
        ])
        .out(vec![Conn::To { node: 3, mode: Mode::Plain }]);
    let d = NodeSpec::new("D", 1);
    let spec = Arc::new(BenchSpec::new(vec![s, b, c, d]));
    let sc = Scenario {
        spec,
        cmds: vec![Cmd::ProcEvent { node: 0, tag: 1, val: 1 }],
        label: "smoke".into(),
    };
    let t0 = std::time::Instant::now();
    let mut outcomes = std::collections::BTreeSet::new();
    let mut first = None;
    let stats = explore::explore(None, 10_000_000, |prefix| {
        let out = run_once(&sc, prefix, true);
        let order: Vec<i64> = out
            .log
            .iter()
            .filter_map(|e| match e {
                Ev::HS { node: 3, val, .. } => Some(*val),
                _ => None,
            })
            .collect();
        outcomes.insert(order);
        if first.is_none() {
            first = Some(out.log.clone());
        }
        assert_eq!(out.leaked, 0, "leak");
        Ok((out.chooser, true))
    })
    .unwrap();
    println!("{:?} outcomes={} {:?}", stats, outcomes.len(), t0.elapsed());
    for o in &outcomes {
        println!("  {:?}", o);
    }
    for e in first.unwrap() {
        println!("{:?}", e);
    }
}
