//! Oracles: a single pass over the event log of one execution that maintains a
//! boring reference model (pending scheduled occurrences, expected deliveries,
//! per-mailbox accounting, causal knowledge sets) and reports every deviation
//! under a tag. Each property check selects the tags that state *its*
//! property.

use std::collections::{BTreeMap, BTreeSet};

use super::world::*;

#[derive(Clone, Debug)]
pub struct Viol {
    pub tag: &'static str,
    pub msg: String,
}

#[derive(Clone, Copy, PartialEq, Eq, Debug)]
pub enum NState {
    InSim,
    Orphan,
    Dropped,
}

pub fn nstate(spec: &BenchSpec, i: usize) -> NState {
    if spec.in_sim(i) {
        NState::InSim
    } else if spec.nodes[i].placement == Placement::Orphan {
        NState::Orphan
    } else {
        NState::Dropped
    }
}

pub const DRIVER: usize = usize::MAX;
pub const SOURCE: usize = usize::MAX - 1;

struct SendInfo {
    sender: usize,
    val: i64,
    q: bool,
    done: bool,
    cmd: usize,
    /// (recipient, expected value, times seen)
    recips: Vec<(usize, i64, u32)>,
    stamp: BTreeSet<u32>,
}

struct Req {
    id: u32,
    kind: SKind,
    target: Target,
    by: Origin,
    val: i64,
    cancel_idx: Option<usize>,
    next: Option<i64>,
    /// Scheduling-position interval of the next occurrence, plus the log
    /// index of the original request (tie-break between re-armed periodic
    /// occurrences whose predecessors were due in the same step).
    order: (usize, usize, usize),
    stamp: BTreeSet<u32>,
}

struct Due {
    req: usize,
    sync_idx: usize,
    recips: Vec<(usize, i64, u32)>,
    order: (usize, usize, usize),
    hs_idx: Vec<(usize, usize)>, // (recipient, log idx of HS)
}

#[derive(Default, Clone, Debug, PartialEq, Eq, PartialOrd, Ord, Hash)]
pub struct Summary {
    /// Per command: sorted handler invocations (node, tag, val, is_query).
    pub per_cmd: Vec<Vec<(usize, u16, i64, bool)>>,
    pub results: Vec<Res>,
    pub bufs: Vec<Vec<i64>>,
    pub times: Vec<i64>,
}

pub struct Analysis {
    pub viols: Vec<Viol>,
    pub summary: Summary,
    /// Per-node processing order (message values), for outcome counting.
    pub orders: Vec<Vec<i64>>,
}

fn conns_recips(spec: &BenchSpec, conns: &[Conn], val: i64) -> (Vec<(usize, i64, u32)>, Vec<(bool, usize, i64)>) {
    let mut r = vec![];
    let mut sinks = vec![];
    for c in conns {
        match *c {
            Conn::To { node, mode } => {
                if let Some(v) = mode.apply(val) {
                    r.push((node, v, 0));
                }
            }
            Conn::Buf { sink, mode } => {
                if let Some(v) = mode.apply(val) {
                    sinks.push((true, sink, v));
                }
            }
            Conn::Slot { sink, mode } => {
                if let Some(v) = mode.apply(val) {
                    sinks.push((false, sink, v));
                }
            }
        }
    }
    let _ = spec;
    (r, sinks)
}

pub fn analyze(sc: &Scenario, out: &RunOut) -> Analysis {
    let spec = &*sc.spec;
    let n = spec.nodes.len();
    let log = &out.log;
    let mut v: Vec<Viol> = vec![];
    macro_rules! viol {
        ($tag:expr, $($arg:tt)*) => { v.push(Viol { tag: $tag, msg: format!($($arg)*) }) };
    }

    // Dynamic connection lists of output ports (clones share one list).
    let mut lists: Vec<Vec<Conn>> = vec![];
    let mut port_map: Vec<Vec<usize>> = vec![vec![]; n];
    for (i, s) in spec.nodes.iter().enumerate() {
        for conns in &s.outs {
            port_map[i].push(lists.len());
            lists.push(conns.clone());
        }
    }
    for (i, s) in spec.nodes.iter().enumerate() {
        if let Some((sn, sp)) = s.share_out {
            let l = port_map[sn][sp];
            port_map[i].push(l);
            lists[l].extend(s.share_conns.iter().cloned());
        }
    }

    // Connection lists of event sources (connections can be added after the bench was built).
    let mut src_lists: Vec<Vec<Conn>> = spec.srcs.clone();

    let mut now: i64 = 0;
    let mut cur_cmd: usize = 0;
    let mut cmd_start_now: i64 = 0;
    let mut cmd_target: Option<i64> = None; // step_until target
    let mut final_jump_seen = false;
    let mut terminated: Option<i64> = None; // frozen time
    let mut terminated_cmd: usize = 0; // command that returned the fatal error
    let mut last_sync: Option<i64> = None;
    let mut sync_count_in_cmd = 0usize;
    let mut dropping = false;

    let mut sends: BTreeMap<u32, SendInfo> = BTreeMap::new();
    let mut reqs: Vec<Req> = vec![];
    let mut req_by_id: BTreeMap<u32, usize> = BTreeMap::new();
    let mut dues: Vec<Due> = vec![]; // dues of the currently open time step
    let mut step_open: Option<(i64, usize)> = None; // (t, sync idx)
    let mut step_had_oos = false;

    let mut open: Vec<Option<u32>> = vec![None; n];
    let mut init_state: Vec<u8> = vec![0; n];
    let mut hs_count: Vec<usize> = vec![0; n];
    let mut started: Vec<usize> = vec![0; n];
    let mut pending_sends: BTreeSet<u32> = BTreeSet::new();

    let mut know: Vec<BTreeSet<u32>> = vec![BTreeSet::new(); n];
    let mut know_driver: BTreeSet<u32> = BTreeSet::new();
    let mut completed_all: BTreeSet<u32> = BTreeSet::new();
    let mut reply_stamps: BTreeMap<u32, BTreeSet<u32>> = BTreeMap::new();

    let mut sink_exp: Vec<Vec<(usize, usize, i64)>> = vec![vec![]; spec.bufs.len()];
    let mut slot_exp: Vec<Vec<i64>> = vec![vec![]; spec.slots];

    let mut faults_in_cmd: Vec<(usize, PanicKind)> = vec![];
    let mut dropped_delivery_in_cmd: Vec<Option<usize>> = vec![]; // sender (None = scheduler/source)
    let mut blocked_ms_in_cmd: u64 = 0;
    let mut oos_in_cmd: Option<u64> = None;
    let mut sync_k: usize = 0;
    let mut pend_at_cmd_start: Option<i64> = None;

    let mut summary = Summary::default();
    let mut cur_hs: Vec<(usize, u16, i64, bool)> = vec![];
    let mut orders: Vec<Vec<i64>> = vec![vec![]; n];

    let cmd_of = |i: usize| -> Option<&Cmd> {
        if i == 0 {
            None
        } else {
            sc.cmds.get(i - 1)
        }
    };

    // Closes the currently open time step: completeness and ordering of due
    // occurrences.
    macro_rules! close_step {
        ($close_idx:expr, $excused:expr) => {
            if let Some((t, sidx)) = step_open.take() {
                let close_idx: usize = $close_idx;
                let excused: bool = $excused;
                for d in dues.iter() {
                    let r = &reqs[d.req];
                    let cancelled_in_step = r.cancel_idx.map_or(false, |c| c > sidx && c < close_idx);
                    if !excused && !cancelled_in_step {
                        for (node, val, seen) in &d.recips {
                            if *seen == 0 {
                                viol!("sched_missed", "scheduled occurrence id={} due at t={} for node {} (val {}) was not executed in its step", r.id, t, node, val);
                            }
                        }
                    }
                }
                // Same-origin, same-target, same-time ordering.
                for a in 0..dues.len() {
                    for b in 0..dues.len() {
                        if a == b {
                            continue;
                        }
                        let (da, db) = (&dues[a], &dues[b]);
                        if reqs[da.req].by != reqs[db.req].by {
                            continue;
                        }
                        let before = da.order.1 < db.order.0
                            || (da.order.0 == db.order.0
                                && da.order.1 == db.order.1
                                && da.order.0 != da.order.1
                                && da.order.2 < db.order.2);
                        if before {
                            for (na, ia) in &da.hs_idx {
                                for (nb, ib) in &db.hs_idx {
                                    if na == nb && ia > ib {
                                        viol!("same_origin_order", "at t={} node {}: event id={} (scheduled first by {:?}) processed after id={}", t, na, reqs[da.req].id, reqs[da.req].by, reqs[db.req].id);
                                    }
                                }
                            }
                        }
                    }
                }
                // Periodic requests due in this step: their next occurrence
                // counts as scheduled during this step.
                // (The occurrence is re-armed when its predecessor is taken from the queue, i.e.
                // before any computation of that step: whatever is scheduled during the step,
                // by handlers or by the clock, comes after it.)
                for d in dues.iter() {
                    if reqs[d.req].kind.period().is_some() {
                        let o = reqs[d.req].order.2;
                        let _ = close_idx;
                        reqs[d.req].order = (sidx, sidx, o);
                    }
                }
                dues.clear();
            }
        };
    }

    for (idx, ev) in log.iter().enumerate() {
        match ev {
            Ev::Build { node, name } => {
                if *name != spec.qname(*node) {
                    viol!("name", "BuildContext::name of node {} is {:?}, expected {:?}", node, name, spec.qname(*node));
                }
            }
            Ev::Cmd(i) => {
                cur_cmd = *i;
                cmd_start_now = now;
                sync_count_in_cmd = 0;
                final_jump_seen = false;
                faults_in_cmd.clear();
                dropped_delivery_in_cmd.clear();
                blocked_ms_in_cmd = 0;
                oos_in_cmd = None;
                step_had_oos = false;
                cur_hs.clear();
                pend_at_cmd_start = reqs
                    .iter()
                    .filter(|r| r.cancel_idx.is_none())
                    .filter_map(|r| r.next)
                    .min();
                cmd_target = match cmd_of(*i) {
                    Some(Cmd::StepUntil(When::Rel(d))) => Some(now + *d as i64),
                    Some(Cmd::StepUntil(When::Abs(a))) => Some(*a),
                    _ => None,
                };
            }
            Ev::Sync(t) => {
                let answer = spec.clock.answers.get(sync_k).copied().flatten();
                sync_k += 1;
                if let Some(ls) = last_sync {
                    if *t < ls {
                        viol!("sync_monotone", "synchronize({}) called after synchronize({})", t, ls);
                    }
                }
                last_sync = Some(*t);
                sync_count_in_cmd += 1;
                if terminated.is_some() {
                    viol!("term_activity", "synchronize({}) called after the simulation was terminated", t);
                    continue;
                }
                if cur_cmd == 0 {
                    if *t != 0 || sync_count_in_cmd != 1 {
                        viol!("sync_init", "init synchronized on t={} (call #{}), expected once on the start time 0", t, sync_count_in_cmd);
                    }
                    if init_state.iter().any(|s| *s != 0) {
                        viol!("sync_init", "init code ran before the start-time synchronisation");
                    }
                    continue;
                }
                let is_step = matches!(cmd_of(cur_cmd), Some(Cmd::Step) | Some(Cmd::StepUntil(_)));
                if !is_step {
                    viol!("sync_spurious", "synchronize({}) called by non-stepping command #{}", t, cur_cmd);
                    continue;
                }
                // A new time step begins: the previous one must be complete.
                if open.iter().any(|o| o.is_some()) || !pending_sends.is_empty() {
                    viol!("sync_before_done", "synchronize({}) called while computations of the previous time are still in progress", t);
                }
                close_step!(idx, false);
                if final_jump_seen {
                    viol!("sync_extra", "synchronize({}) called after the final jump of step_until", t);
                }
                let pend_min = reqs
                    .iter()
                    .filter(|r| r.cancel_idx.map_or(true, |c| c > idx))
                    .filter_map(|r| r.next)
                    .min();
                let target = cmd_target.unwrap_or(i64::MAX);
                match pend_min {
                    Some(pm) if pm <= target => {
                        if *t != pm {
                            viol!("step_time", "time step at t={} but the earliest pending deadline is {}", t, pm);
                        }
                        if *t < now {
                            viol!("time_backwards", "time step to t={} while the time is {}", t, now);
                        }
                        now = *t;
                        step_open = Some((*t, idx));
                        // Collect due occurrences.
                        for (ri, r) in reqs.iter_mut().enumerate() {
                            let cancelled = r.cancel_idx.map_or(false, |c| c < idx);
                            if cancelled {
                                if r.next.map_or(false, |x| x <= *t) {
                                    r.next = None;
                                }
                                continue;
                            }
                            if r.next == Some(*t) {
                                let recips: Vec<(usize, i64, u32)> = match r.target {
                                    Target::Node(nd) => vec![(nd, r.val, 0)],
                                    Target::Src(s) => conns_recips(spec, &src_lists[s], r.val).0,
                                };
                                let mut recips = recips;
                                let tgt = r.target;
                                recips.retain(|(nd, _, _)| match nstate(spec, *nd) {
                                    NState::Dropped => {
                                        if let Target::Src(_) = tgt {
                                            dropped_delivery_in_cmd.push(None);
                                        }
                                        false
                                    }
                                    _ => {
                                        started[*nd] += 1;
                                        true
                                    }
                                });
                                dues.push(Due {
                                    req: ri,
                                    sync_idx: idx,
                                    recips,
                                    order: r.order,
                                    hs_idx: vec![],
                                });
                                r.next = r.kind.period().map(|p| *t + p as i64);
                            } else if r.next.map_or(false, |x| x < *t) {
                                viol!("sched_overdue", "request id={} still pending with deadline {} when time moves to {}", r.id, r.next.unwrap(), t);
                                r.next = None;
                            }
                        }
                        if let Some(lag) = answer {
                            if spec.tolerance_ns.map_or(false, |tol| lag > tol) {
                                oos_in_cmd = Some(lag);
                                step_had_oos = true;
                            }
                        }
                    }
                    _ => {
                        // Final action-less jump of step_until.
                        match cmd_target {
                            Some(tg) => {
                                if *t != tg {
                                    viol!("step_time", "final synchronisation of step_until on {} instead of the target {}", t, tg);
                                }
                                if now == tg && sync_count_in_cmd > 1 {
                                    viol!("sync_extra", "second synchronisation on the same time {}", t);
                                }
                                now = *t;
                                final_jump_seen = true;
                            }
                            None => {
                                viol!("step_time", "step() moved to t={} although no action is pending", t);
                                now = *t;
                            }
                        }
                    }
                }
            }
            Ev::InitS { node, name } => {
                if cur_cmd != 0 || terminated.is_some() {
                    viol!("init_late", "init of node {} ran outside SimInit::init", node);
                }
                if init_state[*node] != 0 {
                    viol!("init_twice", "init of node {} ran more than once", node);
                }
                if nstate(spec, *node) != NState::InSim {
                    viol!("init_foreign", "init of node {} which is not part of the simulation", node);
                }
                if *name != spec.qname(*node) {
                    viol!("name", "Context::name of node {} is {:?}, expected {:?}", node, name, spec.qname(*node));
                }
                if open[*node].is_some() {
                    viol!("overlap", "init of node {} overlaps a handler", node);
                }
                init_state[*node] = 1;
            }
            Ev::InitE { node } => {
                init_state[*node] = 2;
            }
            Ev::HS { node, id, tag, val, t, q } => {
                let (node, id) = (*node, *id);
                cur_hs.push((node, *tag, *val, *q));
                orders[node].push(*val);
                hs_count[node] += 1;
                if dropping {
                    viol!("code_after_drop", "handler of node {} started after the simulation drop began", node);
                }
                if let Some(frozen) = terminated {
                    // On the multi-threaded executor the failing call returns as soon as the
                    // failure is registered: computations of the failed step that were already
                    // under way on other workers may still complete. They are not "further
                    // attempts to run the simulation"; a handler is one only if its message was
                    // issued by a later command or if it runs at a later simulation time.
                    let from_failed_step = spec.threads > 1
                        && *t <= frozen
                        && sends.get(&id).map_or(true, |si| si.cmd <= terminated_cmd);
                    if !from_failed_step {
                        viol!("term_activity", "handler of node {} (msg {}) ran after termination", node, id);
                    }
                }
                if init_state[node] != 2 {
                    viol!("before_init", "node {} handles msg {} before its init completed (state {})", node, id, init_state[node]);
                }
                if let Some(o) = open[node] {
                    viol!("overlap", "node {} starts msg {} while msg {} is still being handled", node, id, o);
                }
                open[node] = Some(id);
                if *t != now {
                    viol!("handler_time", "handler of node {} (msg {}) read time {} but the simulation time is {}", node, id, t, now);
                }
                if step_had_oos {
                    viol!("oos_code_ran", "handler of node {} (msg {}) ran in a step whose synchronisation reported a lag above the tolerance", node, id);
                }
                let mut stamp: BTreeSet<u32> = BTreeSet::new();
                if let Some(si) = sends.get_mut(&id) {
                    if si.q != *q {
                        viol!("delivery_invented", "msg {} delivered to node {} through the wrong kind of port", id, node);
                    }
                    // Several connections may lead to the same node: match on the
                    // expected value first.
                    let pos = si
                        .recips
                        .iter()
                        .position(|r| r.0 == node && r.1 == *val && r.2 == 0)
                        .or_else(|| si.recips.iter().position(|r| r.0 == node && r.2 == 0))
                        .or_else(|| si.recips.iter().position(|r| r.0 == node));
                    match pos.map(|p| &mut si.recips[p]) {
                        Some(r) => {
                            if r.2 != 0 {
                                viol!("delivery_dup", "msg {} processed {} times by node {}", id, r.2 + 1, node);
                            }
                            if r.1 != *val {
                                viol!("delivery_value", "msg {} reached node {} with value {} instead of {}", id, node, val, r.1);
                            }
                            r.2 += 1;
                        }
                        None => viol!("delivery_invented", "msg {} processed by node {} which is not an accepting recipient", id, node),
                    }
                    stamp = si.stamp.clone();
                } else if let Some(&ri) = req_by_id.get(&id) {
                    let cancel_idx = reqs[ri].cancel_idx;
                    let tgt = reqs[ri].target;
                    match dues.iter_mut().find(|d| d.req == ri) {
                        Some(d) => {
                            let pos = d
                                .recips
                                .iter()
                                .position(|r| r.0 == node && r.1 == *val && r.2 == 0)
                                .or_else(|| d.recips.iter().position(|r| r.0 == node && r.2 == 0))
                                .or_else(|| d.recips.iter().position(|r| r.0 == node));
                            match pos.map(|p| &mut d.recips[p]) {
                                Some(r) => {
                                    if r.2 != 0 {
                                        viol!("sched_dup", "scheduled occurrence id={} executed twice at t={} on node {}", id, now, node);
                                    }
                                    if r.1 != *val {
                                        viol!("delivery_value", "scheduled msg {} reached node {} with value {} instead of {}", id, node, val, r.1);
                                    }
                                    r.2 += 1;
                                }
                                None => viol!("delivery_invented", "scheduled msg {} processed by node {} which is not a recipient", id, node),
                            }
                            d.hs_idx.push((node, idx));
                            let _ = d.sync_idx;
                        }
                        None => {
                            if cancel_idx.map_or(false, |c| c < idx) {
                                viol!("cancel_ignored", "cancelled event id={} executed at t={}", id, now);
                            } else {
                                viol!("sched_wrong_time", "scheduled event id={} executed at t={} which is not one of its deadlines (or twice)", id, now);
                            }
                        }
                    }
                    if let (Target::Node(_), Some(c)) = (tgt, cancel_idx) {
                        if c < idx {
                            viol!("cancel_ignored", "event id={} processed by node {} although its key was cancelled before", id, node);
                        }
                    }
                    stamp = reqs[ri].stamp.clone();
                } else {
                    viol!("delivery_invented", "node {} processed unknown msg {}", node, id);
                }
                // Causal order: every send known (completed) when this message
                // was sent and addressed to this node must have been processed.
                for m1 in &stamp {
                    if let Some(s1) = sends.get(m1) {
                        if let Some(r) = s1.recips.iter().find(|r| r.0 == node) {
                            if r.2 == 0 && *m1 != id {
                                viol!("causal", "node {} processes msg {} before msg {} whose sending happened before", node, id, m1);
                            }
                        }
                    }
                }
                know[node].extend(stamp);
            }
            Ev::HE { node, id } => {
                if open[*node] != Some(*id) {
                    viol!("overlap", "node {} finished msg {} but {:?} was open", node, id, open[*node]);
                }
                open[*node] = None;
                if sends.get(id).map_or(false, |s| s.q) {
                    let e = reply_stamps.entry(*id).or_default();
                    e.extend(know[*node].iter().copied());
                }
            }
            Ev::SendS { node, port, id, val } | Ev::QryS { node, port, id, val } => {
                let q = matches!(ev, Ev::QryS { .. });
                let conns: Vec<Conn> = if *node == DRIVER {
                    vec![Conn::To { node: *port, mode: Mode::Plain }]
                } else if *node == SOURCE {
                    if q { spec.qsrcs[*port].clone() } else { src_lists[*port].clone() }
                } else if q && *port >= UNI_BASE {
                    vec![spec.nodes[*node].unis[*port - UNI_BASE]]
                } else if q {
                    spec.nodes[*node].reqs[*port].clone()
                } else {
                    lists[port_map[*node][*port]].clone()
                };
                let (mut recips, sinks) = conns_recips(spec, &conns, *val);
                let sender_opt = if *node == DRIVER || *node == SOURCE { None } else { Some(*node) };
                recips.retain(|(nd, _, _)| match nstate(spec, *nd) {
                    NState::Dropped => {
                        if *node != DRIVER {
                            dropped_delivery_in_cmd.push(sender_opt);
                        }
                        false
                    }
                    _ => {
                        started[*nd] += 1;
                        true
                    }
                });
                for (is_buf, s, v2) in sinks {
                    if is_buf {
                        sink_exp[s].push((*node, *port, v2));
                    } else {
                        slot_exp[s].push(v2);
                    }
                }
                let stamp = if *node == DRIVER || *node == SOURCE { know_driver.clone() } else { know[*node].clone() };
                sends.insert(*id, SendInfo { sender: *node, val: *val, q, done: false, cmd: cur_cmd, recips, stamp });
                pending_sends.insert(*id);
                if *node != DRIVER && *node != SOURCE && open[*node].is_none() && init_state[*node] != 1 {
                    viol!("overlap", "node {} sends outside of any handler", node);
                }
            }
            Ev::SendE { node, id, .. } => {
                pending_sends.remove(id);
                if let Some(s) = sends.get_mut(id) {
                    s.done = true;
                }
                completed_all.insert(*id);
                know[*node].insert(*id);
            }
            Ev::QryE { node, port, id, replies, partial } => {
                pending_sends.remove(id);
                let val = match log.iter().find(|e| matches!(e, Ev::QryS { id: i2, .. } if i2 == id)) {
                    Some(Ev::QryS { val, .. }) => *val,
                    _ => 0,
                };
                let uni_conn;
                let conns: &[Conn] = if *port >= UNI_BASE {
                    uni_conn = [spec.nodes[*node].unis[*port - UNI_BASE]];
                    &uni_conn
                } else {
                    &spec.nodes[*node].reqs[*port]
                };
                let exp: Vec<(usize, i64)> = expected_replies(conns, val)
                    .into_iter()
                    .filter(|(nd, _)| nstate(spec, *nd) != NState::Dropped)
                    .collect();
                let matches = if *partial { exp.starts_with(replies) } else { *replies == exp };
                if !matches {
                    viol!("replies", "query {} by node {} returned {:?}, expected {:?}", id, node, replies, exp);
                }
                if let Some(s) = sends.get_mut(id) {
                    s.done = true;
                    for r in &s.recips {
                        if r.2 != 1 {
                            viol!("replies_early", "query {} returned before replier {} processed it", id, r.0);
                        }
                    }
                }
                completed_all.insert(*id);
                know[*node].insert(*id);
                if let Some(st) = reply_stamps.get(id) {
                    let st = st.clone();
                    know[*node].extend(st);
                }
            }
            Ev::Sched { by, id, kind, at, now: req_now, target, tag: _, val, res } => {
                if *req_now != now {
                    viol!("time_read", "requester {:?} read time {} but the simulation time is {}", by, req_now, now);
                }
                let valid_time = *at > now;
                let valid_period = kind.period() != Some(0);
                let should = valid_time && valid_period;
                match (should, res) {
                    (true, Ok(())) => {}
                    (false, Err(e)) => {
                        let ok = match e {
                            SE::InvalidScheduledTime => !valid_time,
                            SE::NullRepetitionPeriod => !valid_period,
                        };
                        if !ok {
                            viol!("sched_validation", "request id={} (at={}, now={}, {:?}) rejected with the wrong error {:?}", id, at, now, kind, e);
                        }
                    }
                    (true, Err(e)) => viol!("sched_validation", "valid request id={} (at={}, now={}, {:?}) rejected: {:?}", id, at, now, kind, e),
                    (false, Ok(())) => viol!("sched_validation", "invalid request id={} (at={}, now={}, {:?}) accepted", id, at, now, kind),
                }
                if res.is_ok() && *at <= now {
                    viol!("pending_not_future", "request id={} accepted with deadline {} which is not strictly later than the current time {}", id, at, now);
                }
                if res.is_ok() {
                    let stamp = match by {
                        Some(nd) => know[*nd].clone(),
                        None => know_driver.clone(),
                    };
                    req_by_id.insert(*id, reqs.len());
                    reqs.push(Req {
                        id: *id,
                        kind: *kind,
                        target: *target,
                        by: *by,
                        val: *val,
                        cancel_idx: None,
                        // An invalid request that was accepted is recorded as
                        // is: later checks report its effects as well.
                        next: Some(*at),
                        order: (idx, idx, idx),
                        stamp,
                    });
                }
            }
            Ev::Cancel { id, .. } => {
                if let Some(&ri) = req_by_id.get(id) {
                    if reqs[ri].cancel_idx.is_none() {
                        reqs[ri].cancel_idx = Some(idx);
                    }
                }
            }
            Ev::Connect { node, port, target } => {
                let l = port_map[*node][*port];
                lists[l].push(Conn::To { node: *target, mode: Mode::Plain });
            }
            Ev::MapEval { id } => {
                // User code (a connection closure of an event source) evaluated for a scheduled
                // action: it belongs to the time step of that occurrence, hence after its
                // synchronisation and never in a step that reported a lag above the tolerance.
                if let Some(&ri) = req_by_id.get(id) {
                    let is_step = matches!(cmd_of(cur_cmd), Some(Cmd::Step) | Some(Cmd::StepUntil(_)));
                    if is_step {
                        if !dues.iter().any(|d| d.req == ri) {
                            viol!("code_before_sync", "a connection closure ran for scheduled action id={} outside the synchronised time step of one of its occurrences (current time {})", id, now);
                        }
                        if step_had_oos {
                            viol!("oos_code_ran", "a connection closure ran for scheduled action id={} in a step whose synchronisation reported a lag above the tolerance", id);
                        }
                        if terminated.is_some() {
                            viol!("term_activity", "a connection closure ran for scheduled action id={} after termination", id);
                        }
                    }
                }
            }
            Ev::ConnectSrc { src, conn } => {
                src_lists[*src].push(*conn);
            }
            Ev::ConnectVia { node, port, conn } => {
                let l = port_map[*node][*port];
                lists[l].push(*conn);
            }
            Ev::Fault { node, kind } => faults_in_cmd.push((*node, *kind)),
            Ev::TimeRead { node, t } => {
                if *t != now {
                    viol!("handler_time", "node {} read time {} but the simulation time is {}", node, t, now);
                }
            }
            Ev::ModelDrop { .. } | Ev::Note(_) => {}
            Ev::Blocked(ms) => blocked_ms_in_cmd += *ms,
            Ev::DropStart => dropping = true,
            Ev::DropEnd => {}
            Ev::Ret(i, res, t_after) => {
                let cmd = cmd_of(*i);
                let is_run = *i == 0 || cmd.map_or(false, |c| c.is_run());
                summary.results.push(res.clone());
                summary.times.push(*t_after);
                let mut hs = std::mem::take(&mut cur_hs);
                hs.sort();
                summary.per_cmd.push(hs);
                if let Some(Cmd::DropSim) = cmd {
                    continue;
                }
                if !is_run {
                    // No command of the driver may panic, whatever it is.
                    if let Res::Panicked(m) = res {
                        viol!("api_panic", "command #{} ({:?}) panicked: {}", i, cmd, m);
                    }
                    continue;
                }
                // Sends issued by the driver or a source complete with the command.
                let mut driver_sends: Vec<u32> = vec![];
                for (id, s) in sends.iter_mut() {
                    if s.cmd == *i && (s.sender == DRIVER || s.sender == SOURCE) && !s.done {
                        s.done = true;
                        driver_sends.push(*id);
                    }
                }
                for id in &driver_sends {
                    pending_sends.remove(id);
                    completed_all.insert(*id);
                }
                if let Res::Replies(got) = res {
                    let exp: Vec<(usize, i64)> = match cmd {
                        Some(Cmd::ProcQuery { node, val, .. }) => vec![(*node, reply_val(*node, *val))],
                        Some(Cmd::ProcQSrc { src, val, .. }) => expected_replies(&spec.qsrcs[*src], *val)
                            .into_iter()
                            .filter(|(nd, _)| nstate(spec, *nd) != NState::Dropped)
                            .collect(),
                        _ => vec![],
                    };
                    if *got != exp {
                        viol!("replies", "command #{} ({:?}) returned replies {:?}, expected {:?}", i, cmd, got, exp);
                    }
                }
                if let Res::Panicked(m) = res {
                    viol!("api_panic", "command #{} ({:?}) panicked: {}", i, cmd, m);
                    terminated = Some(now);
                    terminated_cmd = *i;
                    close_step!(idx, true);
                    continue;
                }
                // ---- after termination ----
                if let Some(frozen) = terminated {
                    let ok = match res {
                        Res::Err(E::Terminated) => true,
                        Res::Err(E::InvalidDeadline(_)) => cmd_target.map_or(false, |tg| tg < frozen),
                        _ => false,
                    };
                    if !ok {
                        viol!("term_result", "command #{} ({:?}) after a fatal error returned {:?} instead of Terminated", i, cmd, res);
                    }
                    if *t_after != frozen && *t_after != i64::MIN {
                        viol!("term_time", "command #{} after a fatal error changed the time from {} to {}", i, frozen, t_after);
                    }
                    close_step!(idx, true);
                    continue;
                }
                // ---- mailbox accounting ----
                // (Handlers still running on other workers after a failure was registered make
                // the picture at the return of a failing call non-quiescent: only judged when the call did not fail for another reason.)
                let controlled_or_quiescent = faults_in_cmd.is_empty() && dropped_delivery_in_cmd.is_empty() && oos_in_cmd.is_none() && !(spec.timeout_ms != 0);
                let mut dl: Vec<(String, usize)> = vec![];
                let mut orphan_total = 0usize;
                for r in 0..n {
                    let u = started[r].saturating_sub(hs_count[r]).min(spec.nodes[r].cap);
                    if u == 0 {
                        continue;
                    }
                    match nstate(spec, r) {
                        NState::InSim => {
                            // A model that holds unprocessed messages is not idle: in a genuine
                            // stall it is blocked inside a handler or inside its init. Messages
                            // left with a model that is not running anything were abandoned by
                            // the executor (the model's task was lost), which is not a deadlock
                            // of the bench.
                            if open[r].is_none() && init_state[r] != 1 && controlled_or_quiescent {
                                viol!("report_exact", "command #{} returned with {} unprocessed message(s) in the mailbox of model {} although that model is idle (not inside a handler or init): its task was abandoned", i, u, spec.qname(r));
                            }
                            dl.push((spec.qname(r), u))
                        }
                        NState::Orphan => orphan_total += u,
                        NState::Dropped => {}
                    }
                }
                dl.sort();
                // ---- acceptable outcomes of this command ----
                let mut acceptable: Vec<String> = vec![];
                let mut special = false;
                for (nd, k) in &faults_in_cmd {
                    special = true;
                    let payload = match k {
                        PanicKind::Str => "str:boom".to_string(),
                        PanicKind::String => format!("string:boom {}", nd),
                        PanicKind::Custom => format!("custom:{}", *nd as u32 + 7),
                    };
                    acceptable.push(format!("{:?}", E::Panic { model: spec.qname(*nd), payload }));
                }
                for s in &dropped_delivery_in_cmd {
                    special = true;
                    acceptable.push(format!("{:?}", E::NoRecipient(s.map(|x| spec.qname(x)))));
                }
                if let Some(lag) = oos_in_cmd {
                    special = true;
                    acceptable.push(format!("{:?}", E::OutOfSync(lag)));
                }
                if spec.timeout_ms != 0 && blocked_ms_in_cmd > 0 {
                    special = true;
                    acceptable.push(format!("{:?}", E::Timeout));
                }
                // With a wall-clock step budget configured, a slow machine may
                // make any step overrun: a Timeout is then a legitimate answer.
                let timeout_possible = spec.timeout_ms != 0;
                let invalid_deadline = matches!(cmd, Some(Cmd::StepUntil(_))) && cmd_target.map_or(false, |tg| tg < cmd_start_now);
                if invalid_deadline {
                    special = true;
                    acceptable.push(format!("{:?}", E::InvalidDeadline(cmd_target.unwrap())));
                }
                if !special {
                    if !dl.is_empty() {
                        acceptable.push(format!("{:?}", E::Deadlock(dl.clone())));
                    } else if orphan_total > 0 {
                        acceptable.push(format!("{:?}", E::MessageLoss(orphan_total)));
                    }
                }
                let got_err = match res {
                    Res::Err(e) => Some(e.clone()),
                    _ => None,
                };
                if let Some(E::Panic { model, payload }) = &got_err {
                    if faults_in_cmd.is_empty() {
                        viol!("unexpected_panic", "command #{} ({:?}) reported a panic of model {:?} that no script asked for: {}", i, cmd, model, payload);
                    }
                }
                match &got_err {
                    Some(e) => {
                        // Normalise deadlock lists (order is unspecified).
                        let e_norm = match e {
                            E::Deadlock(l) => {
                                let mut l = l.clone();
                                l.sort();
                                E::Deadlock(l)
                            }
                            other => other.clone(),
                        };
                        let s = format!("{:?}", e_norm);
                        let bad_query_ok = matches!(e, E::BadQuery)
                            && matches!(cmd, Some(Cmd::ProcQuery { node, .. }) if nstate(spec, *node) != NState::InSim);
                        let bad_query_src = matches!(e, E::BadQuery) && matches!(cmd, Some(Cmd::ProcQSrc { .. }));
                        let spurious_timeout = timeout_possible && matches!(e, E::Timeout);
                        if !acceptable.contains(&s) && !bad_query_ok && !bad_query_src && !spurious_timeout {
                            let tag = match e {
                                E::Deadlock(_) | E::MessageLoss(_) => "report_exact",
                                _ => "error_class",
                            };
                            viol!(tag, "command #{} ({:?}) returned {:?}; acceptable: {:?}", i, cmd, e, acceptable);
                        }
                        if e.is_fatal() {
                            terminated = Some(*t_after);
                            terminated_cmd = *i;
                            now = *t_after;
                            close_step!(idx, true);
                            continue;
                        }
                    }
                    None => {
                        if !acceptable.is_empty() {
                            let tag = if special { "error_class" } else { "report_exact" };
                            viol!(tag, "command #{} ({:?}) returned {:?} although {:?} was expected", i, cmd, res, acceptable);
                        }
                    }
                }
                // ---- non-fatal or Ok ----
                let ok_like = matches!(res, Res::Ok | Res::Replies(_));
                close_step!(idx, false);
                if ok_like {
                    if let Some(nd) = open.iter().position(|o| o.is_some()) {
                        viol!("half_handler", "command #{} returned Ok while node {} is half-way through msg {:?}", i, nd, open[nd]);
                    }
                    if !pending_sends.is_empty() {
                        viol!("pending_send", "command #{} returned Ok while sends {:?} have not completed", i, pending_sends);
                    }
                    for (id, s) in sends.iter() {
                        for r in &s.recips {
                            if r.2 == 0 && nstate(spec, r.0) == NState::InSim {
                                viol!("delivery_lost", "command #{} returned Ok but msg {} (sent during command #{}) was never processed by node {}", i, id, s.cmd, r.0);
                            }
                        }
                    }
                    if *i == 0 {
                        for nd in 0..n {
                            let st = nstate(spec, nd);
                            if st == NState::InSim && init_state[nd] != 2 {
                                viol!("init_missing", "init returned Ok but node {} was not initialised (state {})", nd, init_state[nd]);
                            }
                        }
                    }
                    know_driver = completed_all.clone();
                }
                // ---- time ----
                match cmd {
                    None => {
                        if *t_after != 0 {
                            viol!("cmd_time", "time after init is {} instead of the start time", t_after);
                        }
                    }
                    Some(Cmd::Step) => {
                        if ok_like {
                            if *t_after != now {
                                viol!("cmd_time", "step() returned with time {} but the reference time is {}", t_after, now);
                            }
                            let pend = reqs
                                .iter()
                                .filter(|r| r.cancel_idx.map_or(true, |c| c > idx))
                                .filter_map(|r| r.next)
                                .min();
                            let _ = pend;
                            if sync_count_in_cmd == 0 {
                                // Nothing was run: allowed only if nothing was pending.
                                if pend_at_cmd_start.is_some() {
                                    viol!("step_time", "step() did not advance although an action is pending at {:?}", pend_at_cmd_start);
                                }
                                if *t_after != cmd_start_now {
                                    viol!("cmd_time", "step() with nothing pending changed the time from {} to {}", cmd_start_now, t_after);
                                }
                            } else if sync_count_in_cmd > 1 {
                                viol!("sync_extra", "step() synchronised {} times", sync_count_in_cmd);
                            }
                        }
                    }
                    Some(Cmd::StepUntil(_)) => {
                        if ok_like {
                            let tg = cmd_target.unwrap();
                            if *t_after != tg {
                                viol!("cmd_time", "step_until({}) returned with time {}", tg, t_after);
                            }
                            if now != tg {
                                if tg > cmd_start_now {
                                    viol!("sync_missing", "step_until({}) reached its target without synchronising on it", tg);
                                }
                                now = tg;
                            }
                            if let Some(p) = reqs
                                .iter()
                                .filter(|r| r.cancel_idx.map_or(true, |c| c > idx))
                                .filter_map(|r| r.next)
                                .min()
                            {
                                if p <= tg {
                                    viol!("sched_overdue", "step_until({}) returned while an action is still pending at {}", tg, p);
                                }
                            }
                        } else if *t_after != cmd_start_now {
                            viol!("cmd_time", "failed step_until changed the time from {} to {}", cmd_start_now, t_after);
                        }
                    }
                    Some(_) => {
                        if *t_after != cmd_start_now {
                            viol!("cmd_time", "command #{} ({:?}) changed the time from {} to {}", i, cmd, cmd_start_now, t_after);
                        }
                        if sync_count_in_cmd != 0 {
                            // already reported as sync_spurious
                        }
                    }
                }
                let _ = step_had_oos;
            }
        }
        if let Ev::HS { .. } = ev {
            // `Block` ops are accounted when the handler that contains them
            // starts (the oracle only needs to know that one is present).
        }
    }
    // Block accounting needs the scripts: a command whose handlers contain a
    // Block op longer than the timeout is expected to time out. Done in a
    // second light pass to keep the main loop readable.
    let _ = blocked_ms_in_cmd;

    // Sinks.
    for (s, exp) in sink_exp.iter().enumerate() {
        let got = &out.bufs[s];
        let cap = spec.bufs[s];
        if got.len() > cap {
            viol!("sink_capacity", "buffer {} holds {} events although its capacity is {}", s, got.len(), cap);
        }
        if exp.len() > cap && terminated.is_none() {
            // Overflow: exactly `capacity` events are retained, all of them written,
            // and of each sender the most recent ones (a suffix of what it sent).
            if got.len() != cap {
                viol!("sink_content", "buffer {} (capacity {}) holds {} events after {} writes", s, cap, got.len(), exp.len());
            }
            let mut by_sender: BTreeMap<(usize, usize), Vec<i64>> = BTreeMap::new();
            for (nd, p, val) in exp {
                by_sender.entry((*nd, *p)).or_default().push(*val);
            }
            for (_, v) in got.iter() {
                if !exp.iter().any(|e| e.2 == *v) {
                    viol!("sink_content", "buffer {} holds {} which was never written", s, v);
                }
            }
            if by_sender.len() == 1 {
                let vals = by_sender.values().next().unwrap();
                let tail: Vec<i64> = vals[vals.len() - cap.min(vals.len())..].to_vec();
                let g: Vec<i64> = got.iter().map(|x| x.1).collect();
                if g != tail {
                    viol!("sink_content", "buffer {} retained {:?} instead of the most recent events {:?}", s, g, tail);
                }
            }
        }
        if exp.len() <= cap && terminated.is_none() {
            let mut e: Vec<i64> = exp.iter().map(|x| x.2).collect();
            let mut g: Vec<i64> = got.iter().map(|x| x.1).collect();
            // Per (sender, port) order.
            let mut by_sender: BTreeMap<(usize, usize), Vec<i64>> = BTreeMap::new();
            for (nd, p, val) in exp {
                by_sender.entry((*nd, *p)).or_default().push(*val);
            }
            for ((nd, p), vals) in &by_sender {
                // The subsequence of `g` made of this sender's values must be `vals`.
                // Values are made unique per sender by the benches.
                let set: BTreeSet<i64> = vals.iter().copied().collect();
                let others: BTreeSet<i64> = by_sender
                    .iter()
                    .filter(|(k, _)| **k != (*nd, *p))
                    .flat_map(|(_, v)| v.iter().copied())
                    .collect();
                if set.intersection(&others).next().is_some() {
                    continue;
                }
                let sub: Vec<i64> = g.iter().copied().filter(|x| set.contains(x)).collect();
                if sub != *vals {
                    viol!("sink_order", "buffer {}: events of node {} port {} arrived as {:?}, sent as {:?}", s, nd, p, sub, vals);
                }
            }
            e.sort();
            g.sort();
            if e != g {
                viol!("sink_content", "buffer {} holds {:?}, expected (as a multiset) {:?}", s, g, e);
            }
        }
        summary.bufs.push({
            let mut g: Vec<i64> = got.iter().map(|x| x.1).collect();
            g.sort();
            g
        });
    }
    for (s, exp) in slot_exp.iter().enumerate() {
        if terminated.is_some() {
            continue;
        }
        let got = out.slots[s].map(|x| x.1);
        match (exp.is_empty(), got) {
            (true, Some(g)) => viol!("sink_content", "slot {} holds {} but nothing was written", s, g),
            (false, None) => viol!("sink_content", "slot {} is empty although {:?} were written", s, exp),
            (false, Some(g)) => {
                if !exp.contains(&g) {
                    viol!("sink_content", "slot {} holds {} which was never written ({:?})", s, g, exp);
                }
            }
            _ => {}
        }
    }
    // Drop accounting.
    if out.leaked != 0 {
        viol!("leak", "{} tracked values (models, messages, scheduled arguments) were never dropped", out.leaked);
    }
    if out.double_drops != 0 {
        viol!("double_drop", "{} tracked values were dropped twice", out.double_drops);
    }
    let mut md = vec![0usize; n];
    for ev in log {
        if let Ev::ModelDrop { node } = ev {
            md[*node] += 1;
        }
    }
    for nd in 0..n {
        if md[nd] != 1 {
            viol!("model_drop", "model {} dropped {} times", nd, md[nd]);
        }
    }
    Analysis { viols: v, summary, orders }
}

