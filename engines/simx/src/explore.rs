//! Stateless depth-first exploration over recorded choice points.
//!
//! A scenario is a deterministic function of a choice vector. `Chooser`
//! replays a prefix of choices and then takes choice 0 (the production
//! default) at every later point. `explore` enumerates all choice vectors
//! (optionally only those with at most `dev_bound` non-default choices).

use std::cell::RefCell;

#[derive(Default, Debug, Clone)]
pub struct Chooser {
    pub prefix: Vec<u16>,
    pub taken: Vec<(u16, u16)>,
    /// Set when a replayed choice was out of range: the scenario is not a
    /// deterministic function of its choice vector (machinery error).
    pub diverged: bool,
}

impl Chooser {
    pub fn new(prefix: Vec<u16>) -> Self {
        Self {
            prefix,
            taken: Vec::new(),
            diverged: false,
        }
    }
    pub fn choose(&mut self, n: usize) -> usize {
        assert!(n >= 1 && n < u16::MAX as usize);
        let i = self.taken.len();
        let mut c = if i < self.prefix.len() {
            self.prefix[i]
        } else {
            0
        };
        if (c as usize) >= n {
            self.diverged = true;
            c = 0;
        }
        self.taken.push((c, n as u16));
        c as usize
    }
}

thread_local! {
    pub static CHOOSER: RefCell<Chooser> = RefCell::new(Chooser::default());
}

pub fn choose(n: usize) -> usize {
    if n <= 1 {
        return 0;
    }
    CHOOSER.with(|c| c.borrow_mut().choose(n))
}

pub fn install(prefix: Vec<u16>) {
    CHOOSER.with(|c| *c.borrow_mut() = Chooser::new(prefix));
}

pub fn take() -> Chooser {
    CHOOSER.with(|c| std::mem::take(&mut *c.borrow_mut()))
}

#[derive(Default, Debug, Clone)]
pub struct ExploreStats {
    pub executions: u64,
    pub max_choice_points: usize,
    pub capped: bool,
    pub dev_bound: Option<usize>,
    /// Executions that had to be repeated because the replay of their prefix did not
    /// reproduce the recorded option counts (0 when the code under test is a
    /// deterministic function of the schedule, as it is on the unchanged tree).
    pub replay_retries: u64,
    /// Set when a prefix kept diverging: the exploration went on from what the code
    /// actually did, and is no longer an exhaustive enumeration for this scenario.
    pub nondeterministic: bool,
}

/// Machinery failure (never a verdict).
#[derive(Debug)]
pub struct Divergence(pub String);

/// Runs `f` for every choice vector. `f` receives the prefix to install and
/// must return the choices actually taken (from `take()`), after having run
/// the scenario. Returning `false` from `f` stops the exploration (violation
/// found).
pub fn explore(
    dev_bound: Option<usize>,
    max_execs: u64,
    f: impl FnMut(&[u16]) -> Result<(Chooser, bool), Divergence>,
) -> Result<ExploreStats, Divergence> {
    explore_until(dev_bound, max_execs, None, f)
}

/// Like `explore`, with a wall-clock deadline after which the exploration of this
/// scenario stops and is reported as capped.
pub fn explore_until(
    dev_bound: Option<usize>,
    max_execs: u64,
    deadline: Option<std::time::Instant>,
    mut f: impl FnMut(&[u16]) -> Result<(Chooser, bool), Divergence>,
) -> Result<ExploreStats, Divergence> {
    let mut stats = ExploreStats {
        dev_bound,
        ..Default::default()
    };
    let mut prefix: Vec<u16> = Vec::new();
    let mut expected: Vec<(u16, u16)> = Vec::new();
    let mut retries_here = 0u32;
    const MAX_RETRIES: u32 = 8;
    loop {
        let (ch, cont) = f(&prefix)?;
        stats.executions += 1;
        if !cont {
            // A violation was observed on this (real) execution: the caller confirms it by
            // replay, whether or not the execution followed the planned prefix.
            stats.max_choice_points = stats.max_choice_points.max(ch.taken.len());
            return Ok(stats);
        }
        let mut divergence: Option<String> = None;
        if ch.diverged {
            divergence = Some(format!("replayed choice out of range: prefix {:?} taken {:?}", prefix, ch.taken));
        }
        // Replay determinism: the option counts along the replayed prefix must
        // be the ones recorded when the prefix was produced.
        for (i, e) in expected.iter().enumerate() {
            if i + 1 >= prefix.len() {
                break;
            }
            if divergence.is_none() && ch.taken.get(i).map(|t| t.1) != Some(e.1) {
                divergence = Some(format!("replay divergence at choice point {}: expected {} options, got {:?}", i, e.1, ch.taken.get(i)));
            }
        }
        if divergence.is_none() && ch.taken.len() < prefix.len() {
            divergence = Some(format!("replay divergence: execution shorter ({}) than its prefix ({})", ch.taken.len(), prefix.len()));
        }
        if let Some(d) = divergence {
            // The execution did not follow the planned prefix. It was a real execution and the
            // oracle has judged it; repeat the same prefix a few times before giving up (the
            // code under test may depend on something the schedule does not fix, e.g. addresses).
            retries_here += 1;
            stats.replay_retries += 1;
            if retries_here <= MAX_RETRIES {
                continue;
            }
            // The code under test does not behave as a function of the schedule (and does so
            // consistently): go on from what it actually did. The scenario is reported as
            // explored non-exhaustively; violations are still confirmed by replay.
            let _ = d;
            stats.nondeterministic = true;
        }
        retries_here = 0;
        stats.max_choice_points = stats.max_choice_points.max(ch.taken.len());
        if stats.executions >= max_execs || deadline.map_or(false, |d| std::time::Instant::now() >= d) {
            stats.capped = true;
            return Ok(stats);
        }
        // Backtrack.
        let taken = ch.taken;
        let mut devs: Vec<usize> = Vec::with_capacity(taken.len() + 1);
        let mut d = 0;
        devs.push(0);
        for t in &taken {
            if t.0 != 0 {
                d += 1;
            }
            devs.push(d);
        }
        let mut next: Option<Vec<u16>> = None;
        for i in (0..taken.len()).rev() {
            let (c, n) = taken[i];
            if c + 1 < n {
                let cost = devs[i] + 1;
                if dev_bound.map_or(true, |b| cost <= b) {
                    let mut p: Vec<u16> = taken[..i].iter().map(|t| t.0).collect();
                    p.push(c + 1);
                    next = Some(p);
                    break;
                }
            }
        }
        match next {
            Some(p) => {
                expected = taken[..p.len()].to_vec();
                prefix = p;
            }
            None => return Ok(stats),
        }
    }
}
