//! Scenario families per property (engine S).

use std::sync::Arc;

use super::check::Family;
use super::world::*;

pub fn to(node: usize) -> Conn {
    Conn::To { node, mode: Mode::Plain }
}
pub fn tom(node: usize, mode: Mode) -> Conn {
    Conn::To { node, mode }
}
pub fn send(port: usize, tag: u16) -> Op {
    Op::Send { port, tag, val: Val::In }
}
pub fn sendp(port: usize, tag: u16, k: i64) -> Op {
    Op::Send { port, tag, val: Val::InPlus(k) }
}
pub fn sendc(port: usize, tag: u16, c: i64) -> Op {
    Op::Send { port, tag, val: Val::C(c) }
}
pub fn query(port: usize, tag: u16) -> Op {
    Op::Query { port, tag, val: Val::In }
}
pub fn sched_self(kind: SKind, when: When, tag: u16, slot: usize) -> Op {
    Op::Sched { kind, when, tag, val: Val::In, slot }
}
pub fn pe(node: usize, tag: u16, val: i64) -> Cmd {
    Cmd::ProcEvent { node, tag, val }
}
pub fn scn(label: impl Into<String>, spec: &Arc<BenchSpec>, cmds: Vec<Cmd>) -> Scenario {
    Scenario {
        spec: spec.clone(),
        cmds,
        label: label.into(),
        prelude: None,
    }
}
pub fn with_prelude(mut sc: Scenario, pre: Scenario) -> Scenario {
    sc.prelude = Some(Arc::new(pre));
    sc
}

/// All sequences over `alphabet` of length 1..=depth.
pub fn seqs<T: Clone>(alphabet: &[T], depth: usize) -> Vec<Vec<T>> {
    let mut out: Vec<Vec<T>> = vec![];
    let mut layer: Vec<Vec<T>> = vec![vec![]];
    for _ in 0..depth {
        let mut next = vec![];
        for s in &layer {
            for a in alphabet {
                let mut s2 = s.clone();
                s2.push(a.clone());
                next.push(s2);
            }
        }
        out.extend(next.iter().cloned());
        layer = next;
    }
    out
}

/// Chronology on big benches: plus "every model was initialised" and "no bogus stall report".
pub const TAGS_TIME_BIG: &[&str] = &[
    "step_time", "time_backwards", "handler_time", "time_read", "sched_missed", "sched_dup", "sched_wrong_time", "sched_overdue", "cmd_time",
    "pending_not_future", "init_missing", "report_exact", "error_class",
];

pub const TAGS_TIME_BATCH: &[&str] = &[
    "step_time", "time_backwards", "handler_time", "time_read", "sched_missed", "sched_dup", "sched_wrong_time", "sched_overdue", "cmd_time",
    "pending_not_future", "half_handler", "pending_send",
];

pub const TAGS_TIME: &[&str] = &[
    "step_time",
    "time_backwards",
    "handler_time",
    "time_read",
    "sched_missed",
    "sched_dup",
    "sched_wrong_time",
    "sched_overdue",
    "cmd_time",
    "pending_not_future",
];

// ---------------------------------------------------------------------------
// C01
// ---------------------------------------------------------------------------

fn c01_spec() -> Arc<BenchSpec> {
    // A: scripted self-scheduler, forwards to B. B: passive reader.
    let a = NodeSpec::new("A", 4)
        .script(1, vec![Op::ReadTime])
        .script(2, vec![sched_self(SKind::Once, When::Rel(1), 1, 2)])
        .script(3, vec![sched_self(SKind::Once, When::Rel(2), 1, 2), send(0, 1)])
        .script(4, vec![sched_self(SKind::KeyedPeriodic(1), When::Rel(1), 1, 1)])
        .script(5, vec![Op::Cancel { slot: 1 }])
        .out(vec![to(1)]);
    let b = NodeSpec::new("B", 4).script(1, vec![Op::ReadTime]);
    Arc::new(BenchSpec::new(vec![a, b]))
}

fn c01_alphabet() -> Vec<Cmd> {
    use Cmd::*;
    vec![
        Step,
        Sched { node: 0, kind: SKind::Once, when: When::Rel(1), tag: 1, val: 1, slot: 0 },
        Sched { node: 0, kind: SKind::Once, when: When::Rel(2), tag: 2, val: 2, slot: 0 },
        StepUntil(When::Rel(1)),
        StepUntil(When::Rel(3)),
        StepUntil(When::Rel(2)),
        Sched { node: 1, kind: SKind::Once, when: When::Abs(3), tag: 1, val: 3, slot: 0 },
        Sched { node: 0, kind: SKind::Keyed, when: When::Rel(2), tag: 3, val: 4, slot: 0 },
        Sched { node: 1, kind: SKind::Periodic(2), when: When::Rel(1), tag: 1, val: 5, slot: 0 },
        Sched { node: 0, kind: SKind::KeyedPeriodic(1), when: When::Rel(3), tag: 1, val: 6, slot: 1 },
        Cancel { slot: 0 },
        Cancel { slot: 1 },
        StepUntil(When::Rel(0)),
        StepUntil(When::Abs(1)),
        ProcEvent { node: 0, tag: 2, val: 7 },
        ProcEvent { node: 0, tag: 4, val: 8 },
        ProcEvent { node: 0, tag: 5, val: 9 },
        ProcQuery { node: 1, tag: 1, val: 10 },
    ]
}

fn c01_concurrent_spec() -> Arc<BenchSpec> {
    // A and B both react to timed events by sending to C and re-arming
    // themselves; C reads the time.
    let a = NodeSpec::new("A", 2)
        .script(1, vec![sendp(0, 1, 100), sched_self(SKind::Once, When::Rel(1), 2, 0)])
        .script(2, vec![sendp(0, 1, 200)])
        .out(vec![to(2)]);
    let b = NodeSpec::new("B", 2)
        .script(1, vec![sendp(0, 1, 300), sched_self(SKind::Once, When::Rel(2), 2, 0)])
        .script(2, vec![sendp(0, 1, 400)])
        .out(vec![to(2)]);
    let c = NodeSpec::new("C", 1).script(1, vec![Op::ReadTime]);
    Arc::new(BenchSpec::new(vec![a, b, c]))
}

pub fn c01(tier: &str) -> Vec<Family> {
    let spec = c01_spec();
    let depth = if tier == "quick" { 4 } else { 5 };
    let alpha = c01_alphabet();
    let scenarios: Vec<Scenario> = seqs(&alpha, depth)
        .into_iter()
        .enumerate()
        .map(|(i, cmds)| scn(format!("seq#{}", i), &spec, cmds))
        .collect();
    let mut fams = vec![Family::new("driver_sequences", TAGS_TIME, scenarios)];
    // Depth-4/5 sequences over a reduced alphabet (the eight commands that
    // create and consume pending actions).
    let alpha2: Vec<Cmd> = [0usize, 1, 5, 6, 7, 8, 10, 14].iter().map(|i| alpha[*i].clone()).collect();
    let d2 = if tier == "quick" { 5 } else { 6 };
    let sc2: Vec<Scenario> = seqs(&alpha2, d2)
        .into_iter()
        .filter(|s| s.len() == d2)
        .enumerate()
        .map(|(i, cmds)| scn(format!("deep#{}", i), &spec, cmds))
        .collect();
    fams.push(Family::new("deep_sequences", TAGS_TIME, sc2));
    let cs = c01_concurrent_spec();
    let mk = |k: usize| {
        let mut cmds = vec![
            Cmd::Sched { node: 0, kind: SKind::Once, when: When::Rel(1), tag: 1, val: 1, slot: 0 },
            Cmd::Sched { node: 1, kind: SKind::Once, when: When::Rel(1), tag: 1, val: 2, slot: 0 },
            Cmd::Sched { node: 1, kind: SKind::Periodic(1), when: When::Rel(2), tag: 2, val: 3, slot: 0 },
        ];
        match k {
            0 => cmds.extend([Cmd::Step, Cmd::Step, Cmd::Step]),
            1 => cmds.extend([Cmd::StepUntil(When::Rel(3))]),
            2 => cmds.extend([Cmd::Step, Cmd::StepUntil(When::Rel(2))]),
            _ => cmds.extend([Cmd::StepUntil(When::Rel(1)), Cmd::Step, Cmd::Step]),
        }
        cmds
    };
    let sc3: Vec<Scenario> = (0..4).map(|k| scn(format!("concurrent#{}", k), &cs, mk(k))).collect();
    fams.push(Family::new("concurrent_models", TAGS_TIME, sc3).cap(if tier == "quick" { 30_000 } else { 2_000_000 }));
    // Every request kind with past / present / future deadlines (the scenario
    // set of C08), judged on the chronology clauses: nothing pending at or
    // before the current time, everything fires exactly at its deadline.
    let mut f = family_named(c08(tier), "request_validation");
    f.name = "deadline_boundaries";
    f.tags = TAGS_TIME;
    f.hang_is_violation = false;
    // Zero-period requests are C08's business (a hang there is not a C01 verdict).
    f.scenarios.retain(|s| !s.label.contains("Periodic(0)") && !s.label.contains("tag22") && !s.label.contains("tag24")
        && !s.label.contains("tag28") && !s.label.contains("tag30") && !s.label.contains("tag34") && !s.label.contains("tag36")
        && !s.label.contains("tag40") && !s.label.contains("tag42") && !s.label.contains("tag46") && !s.label.contains("tag48")
        && !s.label.contains("tag52") && !s.label.contains("tag54"));
    fams.push(f);
    // Stepping on after a clock error (the stepping sequences of C18 under clocks that
    // lag beyond the tolerance): whatever the calls return, nothing may run late.
    let mut g = family_named(c18(tier), "clock_gating");
    g.name = "after_clock_error";
    g.tags = TAGS_TIME;
    g.scenarios.retain(|s| s.label.starts_with("lag_above") || s.label.starts_with("lag_no_tolerance"));
    fams.push(g);
    fams.push(Family::new("far_future", TAGS_TIME, far_future_scenarios(&spec)));
    {
        // Same-time batches larger than the mailbox, with a competing sender: everything due at a
        // time runs at that time (no handler left suspended into a later step).
        let mut b = family_named(c03(tier), "scheduler_batches");
        b.tags = TAGS_TIME_BATCH;
        fams.push(b);
    }
    {
        let c9 = family_named(c09(tier), "cancelled_runs");
        let thin: Vec<Scenario> = c9.scenarios.into_iter().enumerate().filter(|(i, _)| tier != "quick" || i % 3 == 0).map(|(_, s)| s).collect();
        fams.push(Family::new("cancelled_runs", TAGS_TIME, thin).cap(20_000));
    }
    // Many models, each arming an event on itself from init, on the real multi-threaded executor:
    // a step that advances the time runs every action that was due.
    let tickers = |n: usize| -> Arc<BenchSpec> {
        let nodes: Vec<NodeSpec> = (0..n).map(|i| NodeSpec::new(&format!("t{}", i), 2).init(vec![sched_self(SKind::Once, When::Rel(1), 2, 0)]).script(2, vec![Op::ReadTime])).collect();
        Arc::new(BenchSpec::new(nodes))
    };
    let sc_t: Vec<Scenario> = [200usize, 700].iter().map(|n| scn(format!("tickers/{}", n), &tickers(*n), vec![Cmd::Step, Cmd::Step])).collect();
    fams.push(Family::new("many_models_mt2", TAGS_TIME_BIG, sc_t.clone()).uncontrolled(2, 2).hang_violation());
    fams.push(Family::new("many_models_mt4", TAGS_TIME_BIG, sc_t).uncontrolled(4, 2).hang_violation());
    // Start times before the epoch (-7 s) and crossing it (-1 s + 999_999_998 ns).
    for (name, secs) in [
        ("driver_sequences@-1s", -1i64),
        ("driver_sequences@-7s", -7),
        // Start times whose seconds cross 2^31, 2^32 and 2^33 during the scenario, and a very large one.
        ("driver_sequences@2^31", (1i64 << 31) - 1),
        ("driver_sequences@2^32", (1i64 << 32) - 1),
        ("driver_sequences@2^33", (1i64 << 33) - 1),
        ("driver_sequences@2^40", 1i64 << 40),
    ] {
        let sc: Vec<Scenario> = seqs(&alpha, 3).into_iter().enumerate().map(|(i, cmds)| scn(format!("seq#{}", i), &spec, cmds)).collect();
        fams.push(Family::new(name, TAGS_TIME, sc).epoch(secs));
    }
    for (name, secs) in [("deadline_boundaries@-1s", -1i64), ("deadline_boundaries@-7s", -7), ("deadline_boundaries@2^31", (1i64 << 31) - 1), ("deadline_boundaries@2^33", (1i64 << 33) - 1)] {
        let mut h = family_named(c08(tier), "request_validation");
        h.name = name;
        h.tags = TAGS_TIME;
        h.hang_is_violation = false;
        h.scenarios.retain(|s| !zero_period_label(&s.label));
        fams.push(h.epoch(secs));
    }
    fams
}

/// Picks a family of another property's set by name (never by position).
fn family_named(fams: Vec<Family>, name: &str) -> Family {
    fams.into_iter().find(|f| f.name == name).unwrap_or_else(|| panic!("no family named {}", name))
}

/// Deadlines and periods of the order of 10^18 ns (seconds beyond 2^32, offsets close to the
/// range of a 64-bit nanosecond count), mixed with near ones.
pub const FAR: i64 = 5_000_000_000_000_000_000;
pub fn far_future_scenarios(spec: &Arc<BenchSpec>) -> Vec<Scenario> {
    use Cmd::*;
    let far_period: u64 = 3_000_000_000_000_000_000;
    let near = Sched { node: 1, kind: SKind::Once, when: When::Abs(2), tag: 99, val: 1, slot: 0 };
    let far_abs = Sched { node: 0, kind: SKind::Keyed, when: When::Abs(FAR), tag: 99, val: 2, slot: 0 };
    let far_rel = Sched { node: 1, kind: SKind::Once, when: When::Rel(FAR as u64 + 7), tag: 99, val: 3, slot: 0 };
    let far_per = Sched { node: 0, kind: SKind::Periodic(far_period), when: When::Abs(1), tag: 99, val: 4, slot: 1 };
    let mut sc = vec![];
    let tails: Vec<(&str, Vec<Cmd>)> = vec![
        ("steps", vec![Step, Step, Step]),
        ("until_far", vec![StepUntil(When::Abs(FAR))]),
        ("until_far+1", vec![StepUntil(When::Abs(FAR + 1)), Step]),
        ("until_rel_far", vec![Step, StepUntil(When::Rel(FAR as u64)), Step]),
        ("cancel_then_steps", vec![Cancel { slot: 0 }, Step, Step]),
    ];
    for (tn, tail) in &tails {
        for (hn, head) in [
            ("abs", vec![near.clone(), far_abs.clone()]),
            ("rel", vec![far_rel.clone(), near.clone()]),
            ("periodic", vec![far_per.clone(), near.clone()]),
            ("all", vec![far_abs.clone(), far_per.clone(), far_rel.clone()]),
        ] {
            let mut cmds = head.clone();
            cmds.extend(tail.clone());
            sc.push(scn(format!("far/{}/{}", hn, tn), spec, cmds));
        }
    }
    sc
}

fn zero_period_label(l: &str) -> bool {
    l.contains("Periodic(0)") || ["tag22", "tag24", "tag28", "tag30", "tag34", "tag36", "tag40", "tag42", "tag46", "tag48", "tag52", "tag54"].iter().any(|t| l.contains(t))
}

// ---------------------------------------------------------------------------
// Shared benches
// ---------------------------------------------------------------------------

fn with_caps(mut spec: BenchSpec, caps: &[usize]) -> Arc<BenchSpec> {
    for (i, c) in caps.iter().enumerate() {
        spec.nodes[i].cap = *c;
    }
    Arc::new(spec)
}

/// A -> B (M1), A -> C (M2); C forwards to B (M3).
fn triangle() -> BenchSpec {
    let a = NodeSpec::new("A", 2)
        .script(1, vec![sendp(0, 2, 10), sendp(1, 3, 20)])
        .out(vec![to(1)])
        .out(vec![to(2)]);
    let b = NodeSpec::new("B", 1);
    let c = NodeSpec::new("C", 1).script(3, vec![sendp(0, 2, 30)]).out(vec![to(1)]);
    BenchSpec::new(vec![a, b, c])
}

/// A sends three messages in a row to B, and one to C which relays through D to B.
fn long_chain() -> BenchSpec {
    let a = NodeSpec::new("A", 2)
        .script(1, vec![sendp(0, 2, 10), sendp(0, 2, 11), sendp(1, 3, 20), sendp(0, 2, 12)])
        .out(vec![to(1)])
        .out(vec![to(2)]);
    let b = NodeSpec::new("B", 1);
    let c = NodeSpec::new("C", 1).script(3, vec![sendp(0, 3, 1)]).out(vec![to(3)]);
    let d = NodeSpec::new("D", 1).script(3, vec![sendp(0, 2, 1)]).out(vec![to(1)]);
    BenchSpec::new(vec![a, b, c, d])
}

/// S -> {B, C} (one broadcast) -> D.
fn fan() -> BenchSpec {
    let s = NodeSpec::new("S", 2).script(1, vec![send(0, 2)]).out(vec![to(1), to(2)]);
    let b = NodeSpec::new("B", 2)
        .script(2, vec![sendp(0, 3, 10), sendp(0, 3, 20)])
        .out(vec![to(3)]);
    let c = NodeSpec::new("C", 2)
        .script(2, vec![sendp(0, 3, 30), sendp(0, 3, 40)])
        .out(vec![to(3)]);
    let d = NodeSpec::new("D", 1);
    BenchSpec::new(vec![s, b, c, d])
}

/// A queries C; while replying C sends to B; then A sends to B.
fn query_then_send() -> BenchSpec {
    let a = NodeSpec::new("A", 2)
        .script(1, vec![query(0, 4), sendp(0, 2, 50)])
        .req(vec![to(2)])
        .out(vec![to(1)]);
    let b = NodeSpec::new("B", 1);
    let c = NodeSpec::new("C", 1).script(4, vec![sendp(0, 2, 60), sendp(0, 2, 61)]).out(vec![to(1)]);
    BenchSpec::new(vec![a, b, c])
}

/// A broadcasts M to {B, C}; C relays to B; afterwards A sends M' to B.
fn broadcast_relay() -> BenchSpec {
    let a = NodeSpec::new("A", 2)
        .script(1, vec![sendp(0, 2, 10), sendp(1, 2, 20)])
        .out(vec![to(1), to(2)])
        .out(vec![to(1)]);
    let b = NodeSpec::new("B", 1);
    let c = NodeSpec::new("C", 1).script(2, vec![sendp(0, 2, 30)]).out(vec![to(1)]);
    BenchSpec::new(vec![a, b, c])
}

/// Two producers P, Q hammer a consumer K (cap 1); K forwards to a buffer.
fn two_producers() -> BenchSpec {
    let p = NodeSpec::new("P", 2)
        .script(1, vec![sendp(0, 2, 1), sendp(0, 2, 2), sendp(0, 2, 3)])
        .out(vec![to(2)]);
    let q = NodeSpec::new("Q", 2)
        .script(1, vec![sendp(0, 2, 101), sendp(0, 2, 102)])
        .out(vec![to(2)]);
    let k = NodeSpec::new("K", 1).script(2, vec![send(0, 9)]).out(vec![Conn::Buf { sink: 0, mode: Mode::Plain }]);
    let mut s = BenchSpec::new(vec![p, q, k]);
    s.bufs = vec![16];
    s
}

// ---------------------------------------------------------------------------
// C02
// ---------------------------------------------------------------------------

pub fn c02(tier: &str) -> Vec<Family> {
    let cap = if tier == "quick" { 60_000 } else { 3_000_000 };
    let mut sc = vec![];
    for (name, spec, ncap) in [
        ("triangle", triangle(), 3usize),
        ("long_chain", long_chain(), 4),
        ("query_then_send", query_then_send(), 3),
        ("broadcast_relay", broadcast_relay(), 3),
        ("fan", fan(), 4),
    ] {
        for c in [1usize, 2] {
            let caps: Vec<usize> = (0..ncap).map(|_| c).collect();
            let s = with_caps(spec.clone(), &caps);
            sc.push(scn(format!("{}/cap{}/1ev", name, c), &s, vec![pe(0, 1, 1)]));
            sc.push(scn(format!("{}/cap{}/2ev", name, c), &s, vec![pe(0, 1, 1), pe(0, 1, 2)]));
        }
    }
    // Broadcast whose delivery to B is suspended on a full mailbox while a
    // third party (E) competes for the freed slot; then the triangle.
    for (capb, vname, out0) in [
        (1usize, "", vec![to(1), to(3)]),
        (2, "", vec![to(1), to(3)]),
        // The edge to B through a mapped connection (alone, and next to another connection) and
        // through filtered connections of which exactly one accepts each message.
        (1, "/map", vec![tom(1, Mode::Map(1000))]),
        (1, "/map+plain", vec![tom(1, Mode::Map(1000)), to(3)]),
        (1, "/filters", vec![tom(1, Mode::Filter(0)), tom(3, Mode::Filter(1))]),
        (2, "/filters", vec![tom(3, Mode::Filter(1)), tom(1, Mode::Filter(0))]),
    ] {
        let a = NodeSpec::new("A", 2)
            .script(1, vec![sendp(0, 2, 10), sendp(1, 3, 20)])
            .script(5, vec![sendp(0, 2, 1), sendp(0, 2, 2), sendp(1, 3, 20)])
            .out(out0)
            .out(vec![to(2)]);
        let b = NodeSpec::new("B", capb);
        let c = NodeSpec::new("C", 1).script(3, vec![sendp(0, 2, 30)]).out(vec![to(1)]);
        let d = NodeSpec::new("D", 2);
        let e = NodeSpec::new("E", 1).script(1, vec![sendp(0, 2, 100), sendp(0, 2, 101)]).out(vec![to(1)]);
        let spec = Arc::new(BenchSpec::new(vec![a, b, c, d, e]));
        for tag in [1u16, 5] {
            sc.push(scn(
                format!("bcast_triangle/capB{}{}/tag{}", capb, vname, tag),
                &spec,
                vec![
                    Cmd::Sched { node: 4, kind: SKind::Once, when: When::Rel(1), tag: 1, val: 0, slot: 0 },
                    Cmd::Sched { node: 0, kind: SKind::Once, when: When::Rel(1), tag, val: 0, slot: 0 },
                    Cmd::Step,
                ],
            ));
        }
    }
    let tp = Arc::new(two_producers());
    sc.push(scn(
        "two_producers/timed",
        &tp,
        vec![
            Cmd::Sched { node: 0, kind: SKind::Once, when: When::Rel(1), tag: 1, val: 0, slot: 0 },
            Cmd::Sched { node: 1, kind: SKind::Once, when: When::Rel(1), tag: 1, val: 0, slot: 0 },
            Cmd::Step,
        ],
    ));
    vec![Family::new("causal_graphs", &["causal"], sc).cap(cap)]
}

// ---------------------------------------------------------------------------
// C03
// ---------------------------------------------------------------------------

pub const TAGS_DELIVERY: &[&str] = &[
    "delivery_dup",
    "delivery_invented",
    "delivery_value",
    "delivery_lost",
    "sink_content",
    "sched_missed",
    "sched_dup",
];

pub const TAGS_DELIVERY_SINKS: &[&str] = &["delivery_dup", "delivery_invented", "delivery_value", "delivery_lost", "sink_content", "sink_capacity", "sink_order"];

/// One sender with an output connected through every connection kind.
fn all_kinds(cap: usize, volume: usize) -> Arc<BenchSpec> {
    let ops: Vec<Op> = (0..volume).map(|k| sendp(0, 2, k as i64)).collect();
    let a = NodeSpec::new("A", 4).script(1, ops).out(vec![
        to(1),
        tom(2, Mode::Map(1000)),
        tom(3, Mode::Filter(0)),
        Conn::Buf { sink: 0, mode: Mode::Plain },
        Conn::Buf { sink: 1, mode: Mode::Map(7) },
        Conn::Buf { sink: 2, mode: Mode::Filter(1) },
    ]);
    let b = NodeSpec::new("B", cap);
    let c = NodeSpec::new("C", cap);
    let d = NodeSpec::new("D", cap);
    let mut s = BenchSpec::new(vec![a, b, c, d]);
    s.bufs = vec![64, 64, 64];
    Arc::new(s)
}

/// Two senders share a recipient of capacity `cap`, each also feeding a sink
/// through the same output (the slot freed by the consumer is contended).
fn contended(cap: usize, volume: usize) -> Arc<BenchSpec> {
    let ops1: Vec<Op> = (0..volume).map(|k| sendp(0, 2, k as i64)).collect();
    let ops2: Vec<Op> = (0..volume).map(|k| sendp(0, 2, 100 + k as i64)).collect();
    let p = NodeSpec::new("P", 2).script(1, ops1).out(vec![to(2), Conn::Buf { sink: 0, mode: Mode::Plain }]);
    let q = NodeSpec::new("Q", 2).script(1, ops2).out(vec![to(2), Conn::Buf { sink: 1, mode: Mode::Plain }]);
    let k = NodeSpec::new("K", cap);
    let mut s = BenchSpec::new(vec![p, q, k]);
    s.bufs = vec![64, 64];
    Arc::new(s)
}

/// Sources and requestors.
fn sources_bench(cap: usize) -> Arc<BenchSpec> {
    let a = NodeSpec::new("A", cap)
        .script(5, vec![query(0, 6)])
        .req(vec![to(1), tom(2, Mode::Map(3)), tom(1, Mode::Filter(1))]);
    let b = NodeSpec::new("B", cap);
    let c = NodeSpec::new("C", cap);
    let mut s = BenchSpec::new(vec![a, b, c]);
    s.srcs = vec![vec![to(0), tom(1, Mode::Map(500)), tom(2, Mode::Filter(0))]];
    s.qsrcs = vec![vec![to(1), tom(2, Mode::Filter(1)), tom(0, Mode::Map(2))]];
    Arc::new(s)
}

pub fn c03(tier: &str) -> Vec<Family> {
    let cap = if tier == "quick" { 40_000 } else { 2_000_000 };
    let mut sc = vec![];
    let caps: &[usize] = if tier == "quick" { &[1, 2] } else { &[1, 2, 3, 16] };
    for &c in caps {
        let vols: Vec<usize> = if c == 16 { vec![17] } else { (1..=2 * c + 1).collect() };
        for vol in vols {
            let s = all_kinds(c, vol);
            sc.push(scn(format!("all_kinds/cap{}/vol{}", c, vol), &s, vec![pe(0, 1, 0)]));
            sc.push(scn(format!("all_kinds/cap{}/vol{}/odd", c, vol), &s, vec![pe(0, 1, 1)]));
        }
    }
    for &c in &[1usize, 2] {
        for vol in 1..=3usize {
            let s = contended(c, vol);
            sc.push(scn(
                format!("contended/cap{}/vol{}", c, vol),
                &s,
                vec![
                    Cmd::Sched { node: 0, kind: SKind::Once, when: When::Rel(1), tag: 1, val: 0, slot: 0 },
                    Cmd::Sched { node: 1, kind: SKind::Once, when: When::Rel(1), tag: 1, val: 0, slot: 0 },
                    Cmd::Step,
                ],
            ));
        }
    }
    let mut fams = vec![Family::new("port_kinds", TAGS_DELIVERY, sc).cap(cap)];

    // Every order in which connections of different kinds (models and sinks, plain /
    // map / filter_map) are added to one port, directly or through a clone of the port.
    let kind_at = |k: usize, pos: usize| -> Conn {
        match k {
            0 => to(1 + pos),
            1 => tom(1 + pos, Mode::Map(1000)),
            2 => tom(1 + pos, Mode::Filter(0)),
            3 => Conn::Buf { sink: pos, mode: Mode::Plain },
            4 => Conn::Buf { sink: pos, mode: Mode::Map(7) },
            5 => Conn::Buf { sink: pos, mode: Mode::Filter(1) },
            6 => Conn::Slot { sink: pos, mode: Mode::Plain },
            7 => Conn::Slot { sink: pos, mode: Mode::Map(7) },
            _ => Conn::Slot { sink: pos, mode: Mode::Filter(1) },
        }
    };
    let order_bench = |direct: Vec<Conn>, through_clone: Vec<Conn>| -> Arc<BenchSpec> {
        // A sends two messages through its port, then Z sends two through its clone of that port.
        let a = NodeSpec::new("A", 4).script(1, vec![sendp(0, 2, 0), sendp(0, 2, 1)]).out(direct);
        let mut nodes = vec![a, NodeSpec::new("B", 2), NodeSpec::new("C", 2), NodeSpec::new("D", 2)];
        let mut z = NodeSpec::new("Z", 4).script(1, vec![sendp(0, 2, 10), sendp(0, 2, 11)]);
        z.share_out = Some((0, 0));
        z.share_conns = through_clone;
        nodes.push(z);
        let mut s = BenchSpec::new(nodes);
        s.bufs = vec![64, 64, 64];
        s.slots = 3;
        Arc::new(s)
    };
    let mut sc_o = vec![];
    for k0 in 0..9usize {
        for k1 in 0..9usize {
            for split in 0..=2usize {
                // split = number of connections made directly (the rest through the clone).
                let all = vec![kind_at(k0, 0), kind_at(k1, 1)];
                let s = order_bench(all[..split].to_vec(), all[split..].to_vec());
                sc_o.push(scn(format!("order/{}-{}/direct{}", k0, k1, split), &s, vec![pe(0, 1, 0), pe(4, 1, 0)]));
            }
            for k2 in 0..9usize {
                if tier == "quick" && (k0 + 2 * k1 + 3 * k2) % 3 != 0 {
                    continue;
                }
                let all = vec![kind_at(k0, 0), kind_at(k1, 1), kind_at(k2, 2)];
                let split = (k0 + k1 + k2) % 4;
                let s = order_bench(all[..split].to_vec(), all[split..].to_vec());
                sc_o.push(scn(format!("order/{}-{}-{}/direct{}", k0, k1, k2, split), &s, vec![pe(0, 1, 0), pe(4, 1, 1)]));
            }
        }
    }
    fams.push(Family::new("connection_orders", TAGS_DELIVERY, sc_o).cap(cap));

    // Connections added by the driver through a clone of the port kept since before init,
    // after the model has already emitted through its own handle.
    let mut sc_l = vec![];
    for (iname, initial) in [("none", vec![]), ("model", vec![to(1)]), ("sink", vec![Conn::Buf { sink: 2, mode: Mode::Plain }])] {
        let a = NodeSpec::new("A", 4).script(1, vec![sendp(0, 2, 0), sendp(0, 2, 1)]).out(initial.clone());
        let mut spec = BenchSpec::new(vec![a, NodeSpec::new("B", 2), NodeSpec::new("C", 2), NodeSpec::new("D", 2)]);
        spec.bufs = vec![64, 64, 64];
        spec.slots = 3;
        spec.hold_port_clones = true;
        let spec = Arc::new(spec);
        for k0 in 0..9usize {
            // kinds are placed at positions 1 and 2 (node C / D, buffer 0 / 1... see kind_at) so that they never collide with `initial`.
            let c0 = match kind_at(k0, 1) { Conn::Buf { mode, .. } => Conn::Buf { sink: 0, mode }, c => c };
            sc_l.push(scn(
                format!("late/{}/{}", iname, k0),
                &spec,
                vec![pe(0, 1, 0), Cmd::ConnectVia { node: 0, port: 0, conn: c0 }, pe(0, 1, 2), pe(0, 1, 5)],
            ));
            for k1 in 0..9usize {
                if tier == "quick" && (k0 + k1) % 3 != 0 {
                    continue;
                }
                let c1 = match kind_at(k1, 2) { Conn::Buf { mode, .. } => Conn::Buf { sink: 1, mode }, c => c };
                sc_l.push(scn(
                    format!("late/{}/{}-{}", iname, k0, k1),
                    &spec,
                    vec![Cmd::ConnectVia { node: 0, port: 0, conn: c0 }, pe(0, 1, 0), Cmd::ConnectVia { node: 0, port: 0, conn: c1 }, pe(0, 1, 3)],
                ));
            }
        }
    }
    fams.push(Family::new("late_connections", TAGS_DELIVERY, sc_l).cap(cap));

    // Periodic actions of an event source created before (some of) the source's connections
    // exist: each occurrence goes to the models connected when it is processed.
    let mut sc_s = vec![];
    for (iname, initial) in [("none", vec![]), ("one", vec![to(0)])] {
        let mut spec = BenchSpec::new(vec![NodeSpec::new("A", 2), NodeSpec::new("B", 2), NodeSpec::new("C", 2)]);
        spec.srcs = vec![initial.clone()];
        let spec = Arc::new(spec);
        for kd in [SKind::Periodic(1), SKind::KeyedPeriodic(1), SKind::Periodic(2)] {
            for (ci, c1) in [to(1), tom(1, Mode::Map(500)), tom(1, Mode::Filter(0))].into_iter().enumerate() {
                sc_s.push(scn(
                    format!("late_source/{}/{:?}/conn{}", iname, kd, ci),
                    &spec,
                    vec![
                        Cmd::SchedSrc { src: 0, kind: kd, when: When::Abs(1), tag: 2, val: 4, slot: 0 },
                        Cmd::ConnectSrc { src: 0, conn: c1 },
                        Cmd::Step,
                        Cmd::ConnectSrc { src: 0, conn: tom(2, Mode::Map(7)) },
                        Cmd::Step,
                        Cmd::StepUntil(When::Abs(4)),
                    ],
                ));
            }
        }
    }
    fams.push(Family::new("late_source_connections", TAGS_DELIVERY, sc_s).cap(cap));
    // Sinks that fill up to exactly their capacity and beyond (what the sink holds afterwards
    // is its documented retention: the most recent `capacity` events).
    let mut sc_k = vec![];
    for cap_s in [1usize, 2, 3] {
        for vol in 1..=cap_s + 2 {
            let ops: Vec<Op> = (0..vol).map(|k| sendp(0, 2, k as i64)).collect();
            let a = NodeSpec::new("A", 4).script(1, ops).out(vec![
                Conn::Buf { sink: 0, mode: Mode::Plain },
                to(1),
                Conn::Buf { sink: 1, mode: Mode::Map(7) },
                Conn::Buf { sink: 2, mode: Mode::Filter(1) },
            ]);
            let mut spec = BenchSpec::new(vec![a, NodeSpec::new("B", 2)]);
            spec.bufs = vec![cap_s, cap_s, cap_s];
            sc_k.push(scn(format!("small_sinks/cap{}/vol{}", cap_s, vol), &Arc::new(spec), vec![pe(0, 1, 0), pe(0, 1, 1)]));
        }
    }
    fams.push(Family::new("small_sinks", TAGS_DELIVERY_SINKS, sc_k).cap(cap));
    {
        // Fans of 150 / 300 / 700 recipients on the real multi-threaded executor.
        let big: Vec<Scenario> = [150usize, 300, 700].iter().map(|n| scn(format!("wide_fan/{}", n), &big_fan(*n, 0, false), vec![pe(0, 1, 1), pe(0, 1, 2)])).collect();
        let tags_b: &'static [&'static str] = &["delivery_dup", "delivery_invented", "delivery_value", "delivery_lost", "init_missing", "report_exact", "error_class", "half_handler"];
        fams.push(Family::new("wide_fans_mt2", tags_b, big.clone()).uncontrolled(2, 2).hang_violation());
        fams.push(Family::new("wide_fans_mt4", tags_b, big).uncontrolled(4, 2).hang_violation());
    }
    // Ports carrying the unit type and input / replier methods without arguments (a separate
    // bench with its own expected figures; on the single-threaded executor under every pick order).
    let trivial = Arc::new(BenchSpec::new(vec![NodeSpec::new("A", 1)]));
    let sc_u: Vec<Scenario> = (1..=3u32).map(|r| scn(format!("unit_ports/rounds{}", r), &trivial, vec![Cmd::UnitBench { rounds: r }])).collect();
    fams.push(Family::new("unit_ports", &["api_panic"], sc_u.clone()).cap(cap));
    fams.push(Family::new("unit_ports_mt2", &["api_panic"], sc_u).uncontrolled(2, 3));

    // Scheduler-originated batches: k same-time events from one origin into a
    // mailbox of capacity c (the compound future has to wait for space).
    let mut sc2 = vec![];
    for c in [1usize, 2] {
        let k_node = NodeSpec::new("K", c).script(1, vec![Op::ReadTime]);
        let other = NodeSpec::new("O", 1).script(1, vec![sendp(0, 1, 50)]).out(vec![to(0)]);
        let mut spec = BenchSpec::new(vec![k_node, other]);
        spec.srcs = vec![vec![to(0), tom(0, Mode::Map(10))]];
        let spec = Arc::new(spec);
        for k in 1..=(2 * c + 2) {
            let mut cmds = vec![];
            for j in 0..k {
                let kind = match j % 3 {
                    0 => SKind::Once,
                    1 => SKind::Keyed,
                    _ => SKind::Periodic(5),
                };
                cmds.push(Cmd::Sched { node: 0, kind, when: When::Rel(1), tag: 1, val: j as i64, slot: j });
            }
            cmds.push(Cmd::Sched { node: 1, kind: SKind::Once, when: When::Rel(1), tag: 1, val: 40, slot: 9 });
            cmds.push(Cmd::SchedSrc { src: 0, kind: SKind::Once, when: When::Rel(1), tag: 1, val: 70, slot: 9 });
            cmds.push(Cmd::Step);
            sc2.push(scn(format!("batch/cap{}/k{}", c, k), &spec, cmds));
        }
    }
    fams.push(Family::new("scheduler_batches", TAGS_DELIVERY, sc2).cap(cap));

    let mut sc3 = vec![];
    for c in [1usize, 2] {
        let s = sources_bench(c);
        for v in [0i64, 1] {
            sc3.push(scn(format!("sources/cap{}/ev{}", c, v), &s, vec![Cmd::ProcSrc { src: 0, tag: 1, val: v }, Cmd::ProcSrc { src: 0, tag: 1, val: v + 2 }]));
            sc3.push(scn(format!("sources/cap{}/q{}", c, v), &s, vec![Cmd::ProcQSrc { src: 0, tag: 1, val: v }]));
            sc3.push(scn(format!("sources/cap{}/req{}", c, v), &s, vec![pe(0, 5, v), Cmd::ProcQuery { node: 1, tag: 1, val: v }]));
            sc3.push(scn(
                format!("sources/cap{}/sched{}", c, v),
                &s,
                vec![
                    Cmd::SchedSrc { src: 0, kind: SKind::Periodic(1), when: When::Rel(1), tag: 1, val: v, slot: 0 },
                    Cmd::SchedSrc { src: 0, kind: SKind::Keyed, when: When::Rel(2), tag: 1, val: v + 1, slot: 0 },
                    Cmd::StepUntil(When::Rel(2)),
                ],
            ));
        }
    }
    fams.push(Family::new("sources_and_queries", TAGS_DELIVERY, sc3).cap(cap));
    fams
}

// ---------------------------------------------------------------------------
// C04
// ---------------------------------------------------------------------------

pub const TAGS_QUIESCENCE: &[&str] = &["half_handler", "pending_send", "delivery_lost", "sched_missed"];
/// ... and the call itself returns normally (healthy benches: no panic out of the API, no bogus error).
pub const TAGS_QUIESCENCE_WIDE: &[&str] = &["half_handler", "pending_send", "delivery_lost", "sched_missed", "api_panic", "error_class", "report_exact"];

/// Pipeline A -> B -> C with capacity 1 everywhere, `n` items.
fn pipeline(n: usize) -> Arc<BenchSpec> {
    let ops: Vec<Op> = (0..n).map(|k| sendp(0, 2, k as i64)).collect();
    let a = NodeSpec::new("A", 1).script(1, ops).out(vec![to(1)]);
    let b = NodeSpec::new("B", 1).script(2, vec![sendp(0, 2, 100)]).out(vec![to(2)]);
    let c = NodeSpec::new("C", 1).script(2, vec![send(0, 9)]).out(vec![Conn::Buf { sink: 0, mode: Mode::Plain }]);
    let mut s = BenchSpec::new(vec![a, b, c]);
    s.bufs = vec![32];
    Arc::new(s)
}

/// Query fan-out: A queries {B, C, D}; each replier also reports to a buffer.
fn query_fanout() -> Arc<BenchSpec> {
    let a = NodeSpec::new("A", 1)
        .script(1, vec![query(0, 4), sendp(0, 9, 5)])
        .req(vec![to(1), to(2), to(3)])
        .out(vec![Conn::Buf { sink: 0, mode: Mode::Plain }]);
    let mk = |n: &str, k: i64| {
        NodeSpec::new(n, 1).script(4, vec![sendp(0, 9, k)]).out(vec![Conn::Buf { sink: 0, mode: Mode::Plain }])
    };
    let mut s = BenchSpec::new(vec![a, mk("B", 10), mk("C", 20), mk("D", 30)]);
    s.bufs = vec![32];
    Arc::new(s)
}

pub fn c04(tier: &str) -> Vec<Family> {
    let cap = if tier == "quick" { 60_000 } else { 3_000_000 };
    let mut sc = vec![];
    let f = Arc::new(fan());
    sc.push(scn("fan/1", &f, vec![pe(0, 1, 1)]));
    sc.push(scn("fan/2", &f, vec![pe(0, 1, 1), pe(0, 1, 2)]));
    for n in 1..=3 {
        let p = pipeline(n);
        sc.push(scn(format!("pipeline/{}", n), &p, vec![pe(0, 1, 0)]));
    }
    let q = query_fanout();
    sc.push(scn("query_fanout", &q, vec![pe(0, 1, 1)]));
    let tp = Arc::new(two_producers());
    sc.push(scn(
        "two_producers",
        &tp,
        vec![
            Cmd::Sched { node: 0, kind: SKind::Once, when: When::Rel(1), tag: 1, val: 0, slot: 0 },
            Cmd::Sched { node: 1, kind: SKind::Once, when: When::Rel(1), tag: 1, val: 0, slot: 0 },
            Cmd::Sched { node: 1, kind: SKind::Once, when: When::Rel(2), tag: 1, val: 50, slot: 0 },
            Cmd::StepUntil(When::Rel(2)),
        ],
    ));
    let t = Arc::new(triangle());
    sc.push(scn("triangle", &t, vec![pe(0, 1, 1), pe(0, 1, 2)]));
    // Fan-in of blocked senders onto saturated mailboxes and repeated
    // multi-recipient broadcasts into full mailboxes.
    for c in [1usize, 2] {
        for vol in [2 * c + 1, 2 * c + 2] {
            let s = all_kinds(c, vol);
            sc.push(scn(format!("all_kinds/cap{}/vol{}", c, vol), &s, vec![pe(0, 1, 0), pe(0, 1, 1)]));
        }
        for vol in 2..=3usize {
            let s = contended(c, vol);
            sc.push(scn(
                format!("contended/cap{}/vol{}", c, vol),
                &s,
                vec![
                    Cmd::Sched { node: 0, kind: SKind::Once, when: When::Rel(1), tag: 1, val: 0, slot: 0 },
                    Cmd::Sched { node: 1, kind: SKind::Once, when: When::Rel(1), tag: 1, val: 0, slot: 0 },
                    Cmd::Step,
                ],
            ));
        }
    }
    // Three producers blocked at once on one consumer of capacity 2.
    {
        let mk = |n: &str, base: i64| {
            NodeSpec::new(n, 1)
                .script(1, vec![sendp(0, 2, base), sendp(0, 2, base + 1), sendp(0, 2, base + 2)])
                .out(vec![to(3)])
        };
        let k = NodeSpec::new("K", 2).script(2, vec![send(0, 9)]).out(vec![Conn::Buf { sink: 0, mode: Mode::Plain }]);
        let mut sp = BenchSpec::new(vec![mk("P", 0), mk("Q", 100), mk("R", 200), k]);
        sp.bufs = vec![32];
        let sp = Arc::new(sp);
        sc.push(scn(
            "fan_in3/cap2",
            &sp,
            vec![
                Cmd::Sched { node: 0, kind: SKind::Once, when: When::Rel(1), tag: 1, val: 0, slot: 0 },
                Cmd::Sched { node: 1, kind: SKind::Once, when: When::Rel(1), tag: 1, val: 0, slot: 0 },
                Cmd::Sched { node: 2, kind: SKind::Once, when: When::Rel(1), tag: 1, val: 0, slot: 0 },
                Cmd::Step,
            ],
        ));
    }
    // The same property for worker counts up to the maximum the executor accepts (real threads).
    let wide: Vec<Scenario> = vec![
        scn("wide/fan_out", &big_fan(200, 0, false), vec![pe(0, 1, 1), pe(0, 1, 2), pe(0, 1, 3)]),
        scn("wide/fan", &f, vec![pe(0, 1, 1), pe(0, 1, 2)]),
    ];
    let mut out = vec![Family::new("deterministic_benches", TAGS_QUIESCENCE, sc).cap(cap).invariant().hang_violation()];
    // Batches of same-time events larger than the target mailbox (the compound delivery has to wait).
    let mut batches = family_named(c03(tier), "scheduler_batches");
    batches.tags = TAGS_QUIESCENCE;
    batches.hang_is_violation = true;
    out.push(batches);
    for (name, threads) in [("workers_3", 3usize), ("workers_17", 17), ("workers_63", 63), ("workers_64", 64)] {
        out.push(Family::new(name, TAGS_QUIESCENCE_WIDE, wide.clone()).uncontrolled(threads, 3).hang_violation());
    }
    out
}

// ---------------------------------------------------------------------------
// C05
// ---------------------------------------------------------------------------

pub fn c05(tier: &str) -> Vec<Family> {
    let cap = if tier == "quick" { 40_000 } else { 2_000_000 };
    let mut sc = vec![];
    // A model that is suspended on a send to a full mailbox while three other
    // parties send to it.
    let hub = NodeSpec::new("H", 2)
        .script(1, vec![sendp(0, 2, 1), sendp(0, 2, 2), sendp(0, 2, 3)])
        .script(3, vec![Op::ReadTime])
        .out(vec![to(1)]);
    let slow = NodeSpec::new("S", 1).script(2, vec![sendp(0, 3, 100)]).out(vec![to(0)]);
    let x = NodeSpec::new("X", 1).script(1, vec![sendp(0, 3, 200), sendp(0, 3, 201)]).out(vec![to(0)]);
    let spec = Arc::new(BenchSpec::new(vec![hub, slow, x]));
    sc.push(scn(
        "hub",
        &spec,
        vec![
            Cmd::Sched { node: 0, kind: SKind::Once, when: When::Rel(1), tag: 1, val: 0, slot: 0 },
            Cmd::Sched { node: 2, kind: SKind::Once, when: When::Rel(1), tag: 1, val: 0, slot: 0 },
            Cmd::Sched { node: 0, kind: SKind::Once, when: When::Rel(1), tag: 3, val: 7, slot: 0 },
            Cmd::Step,
        ],
    ));
    for (name, s) in [
        ("triangle", Arc::new(triangle())),
        ("fan", Arc::new(fan())),
        ("query_then_send", Arc::new(query_then_send())),
        ("two_producers", Arc::new(two_producers())),
    ] {
        sc.push(scn(format!("{}/2ev", name), &s, vec![pe(0, 1, 1), pe(0, 1, 2)]));
    }
    // Init that sends while others are already sending to the initialising model.
    let a = NodeSpec::new("A", 1).init(vec![sendc(0, 2, 1), sendc(0, 2, 2)]).out(vec![to(1)]);
    let b = NodeSpec::new("B", 1).init(vec![sendc(0, 2, 3), sendc(0, 2, 4)]).out(vec![to(0)]);
    let s = Arc::new(BenchSpec::new(vec![a, b]));
    sc.push(scn("mutual_init", &s, vec![]));
    vec![Family::new("isolation", &["overlap", "before_init"], sc).cap(cap)]
}

// ---------------------------------------------------------------------------
// C06
// ---------------------------------------------------------------------------

pub fn c06(tier: &str) -> Vec<Family> {
    let cap = if tier == "quick" { 40_000 } else { 2_000_000 };
    let mut sc = vec![];
    // Query loopbacks.
    let a = NodeSpec::new("A", 2).script(1, vec![query(0, 4)]).req(vec![to(0)]);
    sc.push(scn("query_loopback/direct", &Arc::new(BenchSpec::new(vec![a])), vec![pe(0, 1, 1)]));
    let a = NodeSpec::new("A", 2).script(1, vec![query(0, 4)]).script(5, vec![Op::ReadTime]).req(vec![to(1)]);
    let b = NodeSpec::new("B", 2).script(4, vec![query(0, 5)]).req(vec![to(0)]);
    sc.push(scn("query_loopback/transitive", &Arc::new(BenchSpec::new(vec![a, b])), vec![pe(0, 1, 1)]));
    let a = NodeSpec::new("A", 3).script(1, vec![query(0, 4)]).req(vec![to(0), to(1), to(0)]);
    let b = NodeSpec::new("B", 1);
    sc.push(scn("query_loopback/multiple", &Arc::new(BenchSpec::new(vec![a, b])), vec![pe(0, 1, 1)]));
    // Saturating event loops.
    for c in 1..=3usize {
        for extra in 0..=2usize {
            let ops: Vec<Op> = (0..c + extra).map(|k| sendp(0, 2, k as i64)).collect();
            let a = NodeSpec::new("A", c).script(1, ops).out(vec![to(0)]);
            sc.push(scn(
                format!("self_saturation/cap{}/sends{}", c, c + extra),
                &Arc::new(BenchSpec::new(vec![a])),
                vec![pe(0, 1, 0)],
            ));
        }
    }
    // Two models flooding each other (schedule dependent stalls).
    for c in 1..=2usize {
        let a = NodeSpec::new("A", c)
            .script(1, vec![sendp(0, 2, 1), sendp(0, 2, 2), sendp(0, 2, 3)])
            .script(2, vec![sendp(0, 3, 10)])
            .out(vec![to(1)]);
        let b = NodeSpec::new("B", c)
            .script(2, vec![sendp(0, 2, 20), sendp(0, 2, 21)])
            .out(vec![to(0)]);
        sc.push(scn(format!("mutual_flood/cap{}", c), &Arc::new(BenchSpec::new(vec![a, b])), vec![pe(0, 1, 0)]));
    }
    // Orphan mailboxes.
    for c in 1..=2usize {
        for k in 1..=3usize {
            let ops: Vec<Op> = (0..k).map(|j| sendp(0, 2, j as i64)).collect();
            let a = NodeSpec::new("A", 2).script(1, ops).out(vec![to(1)]);
            let o = NodeSpec::new("O", c).placement(Placement::Orphan);
            sc.push(scn(format!("orphan/cap{}/sends{}", c, k), &Arc::new(BenchSpec::new(vec![a, o])), vec![pe(0, 1, 0)]));
        }
    }
    let a = NodeSpec::new("A", 2).script(1, vec![query(0, 4)]).req(vec![to(1)]);
    let o = NodeSpec::new("O", 1).placement(Placement::Orphan);
    sc.push(scn("orphan/query", &Arc::new(BenchSpec::new(vec![a, o])), vec![pe(0, 1, 0)]));
    // Orphan + healthy recipient, and orphan + stalled model (deadlock wins).
    let a = NodeSpec::new("A", 2)
        .script(1, vec![sendp(0, 2, 1), sendp(1, 2, 2)])
        .script(3, vec![sendp(0, 2, 1), query(0, 4)])
        .out(vec![to(1)])
        .out(vec![to(2)])
        .req(vec![to(0)]);
    let o = NodeSpec::new("O", 2).placement(Placement::Orphan);
    let b = NodeSpec::new("B", 1);
    let spec = Arc::new(BenchSpec::new(vec![a, o, b]));
    sc.push(scn("orphan_plus_healthy", &spec, vec![pe(0, 1, 0)]));
    sc.push(scn("orphan_plus_deadlock", &spec, vec![pe(0, 3, 0)]));
    // Sub-models (depth 1 and 2) that stall.
    let p = NodeSpec::new("parent", 2).script(1, vec![send(0, 1)]).out(vec![to(1)]);
    let ch = NodeSpec::new("child", 2).parent(0).script(1, vec![query(0, 4)]).req(vec![to(1)]);
    sc.push(scn("submodel_stall/depth1", &Arc::new(BenchSpec::new(vec![p, ch])), vec![pe(0, 1, 1)]));
    let p = NodeSpec::new("parent", 2).script(1, vec![send(0, 1)]).out(vec![to(1)]);
    let ch = NodeSpec::new("child", 2).parent(0).script(1, vec![send(0, 1)]).out(vec![to(2)]);
    let gc = NodeSpec::new("grandchild", 1)
        .parent(1)
        .script(1, vec![sendp(0, 2, 1), sendp(0, 2, 2), sendp(0, 2, 3)])
        .out(vec![to(2)]);
    sc.push(scn("submodel_stall/depth2", &Arc::new(BenchSpec::new(vec![p, ch, gc])), vec![pe(0, 1, 1)]));
    let p = NodeSpec::new("", 2).script(1, vec![send(0, 1)]).out(vec![to(1)]);
    let ch = NodeSpec::new("", 1).parent(0).script(1, vec![query(0, 4)]).req(vec![to(1)]);
    sc.push(scn("submodel_stall/unnamed", &Arc::new(BenchSpec::new(vec![p, ch])), vec![pe(0, 1, 1)]));
    // Any model of a hierarchy root{a{x}, b} + a plain model stalls (query loopback on itself):
    // parents with sub-models, leaves, and models registered after a hierarchy.
    {
        let stall = |name: &str, me: usize, parent: Option<usize>| {
            let mut n = NodeSpec::new(name, 2).script(1, vec![query(0, 4)]).req(vec![to(me)]);
            n.parent = parent;
            n
        };
        let nodes = vec![stall("root", 0, None), stall("a", 1, Some(0)), stall("x", 2, Some(1)), stall("b", 3, Some(0)), stall("plain", 4, None)];
        let spec = Arc::new(BenchSpec::new(nodes));
        for i in 0..5usize {
            sc.push(scn(format!("hierarchy_stall/node{}", i), &spec, vec![pe(i, 1, 0)]));
        }
        // The plain model registered *before* the hierarchy.
        let nodes = vec![stall("plain", 0, None), stall("root", 1, None), stall("a", 2, Some(1)), stall("b", 3, Some(1)), stall("y", 4, Some(3))];
        let spec = Arc::new(BenchSpec::new(nodes));
        for i in 0..5usize {
            sc.push(scn(format!("hierarchy_stall2/node{}", i), &spec, vec![pe(i, 1, 0)]));
        }
    }
    // Stall during init.
    let a = NodeSpec::new("A", 1).init(vec![sendc(0, 2, 1), sendc(0, 2, 2)]).out(vec![to(0)]);
    sc.push(scn("init_stall", &Arc::new(BenchSpec::new(vec![a])), vec![]));
    // Stall in a timed step, then healthy benches (never lossy).
    let a = NodeSpec::new("A", 1).script(1, vec![query(0, 4)]).req(vec![to(0)]);
    sc.push(scn(
        "timed_stall",
        &Arc::new(BenchSpec::new(vec![a])),
        vec![
            Cmd::Sched { node: 0, kind: SKind::Once, when: When::Rel(2), tag: 1, val: 0, slot: 0 },
            Cmd::StepUntil(When::Rel(3)),
        ],
    ));
    for (name, s) in [
        ("healthy/fan", Arc::new(fan())),
        ("healthy/triangle", Arc::new(triangle())),
        ("healthy/query_fanout", query_fanout()),
        ("healthy/pipeline", pipeline(3)),
    ] {
        sc.push(scn(name, &s, vec![pe(0, 1, 1), pe(0, 1, 2)]));
    }
    // A healthy simulation built on a thread on which an earlier simulation
    // failed (panic with messages in flight, deadlock, message loss) or simply
    // ran: its report must not depend on that history.
    let bomb = NodeSpec::new("X", 4)
        .script(1, vec![sendc(0, 2, 1), sendc(0, 2, 2), Op::Panic(PanicKind::Str)])
        .script(3, vec![sendc(0, 2, 1), query(0, 4)])
        .out(vec![to(1)])
        .req(vec![to(0)]);
    let sinkn = NodeSpec::new("Y", 4);
    let orphan = NodeSpec::new("O", 4).placement(Placement::Orphan);
    let pre_spec = Arc::new(BenchSpec::new(vec![bomb.clone(), sinkn.clone()]));
    let mut bomb_o = bomb.clone();
    bomb_o.outs = vec![vec![to(2)]];
    let pre_spec_orphan = Arc::new(BenchSpec::new(vec![bomb_o, sinkn, orphan]));
    let healthy = Arc::new(fan());
    for (name, pre) in [
        ("after_panic", scn("pre/panic", &pre_spec, vec![pe(0, 1, 0)])),
        ("after_deadlock", scn("pre/deadlock", &pre_spec, vec![pe(0, 3, 0)])),
        ("after_loss", scn("pre/loss", &pre_spec_orphan, vec![pe(0, 3, 0)])),
        ("after_healthy", scn("pre/healthy", &healthy, vec![pe(0, 1, 5)])),
    ] {
        sc.push(with_prelude(scn(format!("history/{}", name), &healthy, vec![pe(0, 1, 1)]), pre));
    }
    // Large healthy fans on the real multi-threaded executor (one worker makes hundreds of tasks
    // runnable at once): no stall or loss report.
    let big: Vec<Scenario> = [300usize, 700, 1000].iter().map(|n| scn(format!("healthy/fan_out/{}", n), &big_fan(*n, 0, false), vec![pe(0, 1, 1), pe(0, 1, 2)])).collect();
    let busy: Vec<Scenario> = [700usize, 1000].iter().map(|n| scn(format!("healthy/fan_out_busy/{}", n), &big_fan(*n, 1, false), vec![pe(0, 1, 1), pe(0, 1, 2)])).collect();
    vec![
        Family::new("large_fans_mt2", &["report_exact", "error_class", "api_panic", "delivery_lost", "half_handler"], [big.clone(), busy].concat()).uncontrolled(2, 2).hang_violation(),
        Family::new("large_fans_mt4", &["report_exact", "error_class", "api_panic", "delivery_lost", "half_handler"], big).uncontrolled(4, 2).hang_violation(),
        Family::new("stall_reports", &["report_exact", "error_class", "api_panic"], sc).cap(cap),
    ]
}

// ---------------------------------------------------------------------------
// C07
// ---------------------------------------------------------------------------

pub fn c07(tier: &str) -> Vec<Family> {
    let cap = if tier == "quick" { 20_000 } else { 1_000_000 };
    // A: target; its handlers are trivial. B: another target. O: a model that
    // schedules several same-time events on itself from one handler.
    let a = NodeSpec::new("A", 1).script(1, vec![Op::ReadTime]);
    let b = NodeSpec::new("B", 1);
    let o = NodeSpec::new("O", 2)
        .script(
            7,
            vec![
                sched_self(SKind::Once, When::Rel(1), 1, 5),
                sched_self(SKind::Periodic(1), When::Rel(1), 1, 5),
                sched_self(SKind::Keyed, When::Rel(1), 1, 5),
                sched_self(SKind::Once, When::Rel(2), 1, 5),
            ],
        )
        .script(1, vec![sendp(0, 1, 500)])
        .out(vec![to(0)]);
    let mut spec = BenchSpec::new(vec![a, b, o]);
    spec.srcs = vec![vec![to(0)]];
    let spec = Arc::new(spec);
    use Cmd::*;
    let alpha: Vec<Cmd> = vec![
        Sched { node: 0, kind: SKind::Once, when: When::Abs(2), tag: 1, val: 1, slot: 0 },
        Sched { node: 0, kind: SKind::Keyed, when: When::Abs(2), tag: 1, val: 2, slot: 1 },
        Sched { node: 0, kind: SKind::Periodic(1), when: When::Abs(1), tag: 1, val: 3, slot: 0 },
        SchedSrc { src: 0, kind: SKind::Once, when: When::Abs(2), tag: 1, val: 4, slot: 0 },
        Sched { node: 1, kind: SKind::Once, when: When::Abs(2), tag: 1, val: 5, slot: 0 },
        Sched { node: 0, kind: SKind::Once, when: When::Abs(3), tag: 1, val: 6, slot: 0 },
        SchedSrc { src: 0, kind: SKind::Periodic(2), when: When::Abs(1), tag: 1, val: 7, slot: 0 },
        Step,
    ];
    let depth = if tier == "quick" { 4 } else { 5 };
    let mut sc = vec![];
    for (i, mut cmds) in seqs(&alpha, depth).into_iter().enumerate() {
        if cmds.iter().filter(|c| !matches!(c, Step)).count() < 2 {
            continue;
        }
        cmds.push(StepUntil(When::Abs(3)));
        sc.push(scn(format!("driver#{}", i), &spec, cmds));
    }
    let mut fams = vec![Family::new("driver_origin", &["same_origin_order"], sc).cap(cap)];
    let mut sc2 = vec![];
    for k in 0..3 {
        let mut cmds = vec![pe(2, 7, 10 * k)];
        if k >= 1 {
            cmds.push(Sched { node: 2, kind: SKind::Once, when: When::Abs(1), tag: 1, val: 77, slot: 0 });
        }
        if k >= 2 {
            cmds.insert(0, Sched { node: 0, kind: SKind::Periodic(1), when: When::Abs(1), tag: 1, val: 88, slot: 0 });
        }
        cmds.push(StepUntil(When::Abs(3)));
        sc2.push(scn(format!("model_origin#{}", k), &spec, cmds));
    }
    // A periodic series of a model, and one-shot events that the tick handler (or another handler
    // of the same step) schedules for exactly the time of the next occurrence: the next occurrence
    // was scheduled first (when its predecessor fired) and runs first.
    for p in [1u64, 2] {
        let tick = NodeSpec::new("P", 4)
            .script(7, vec![sched_self(SKind::Periodic(p), When::Rel(p), 1, 0)])
            .script(1, vec![sched_self(SKind::Once, When::Rel(p), 2, 0), sched_self(SKind::Keyed, When::Rel(p), 2, 1)])
            .script(2, vec![Op::ReadTime])
            .script(8, vec![sched_self(SKind::KeyedPeriodic(p), When::Rel(p), 3, 2)])
            .script(3, vec![sched_self(SKind::Once, When::Rel(p), 2, 0)]);
        let tspec = Arc::new(BenchSpec::new(vec![tick]));
        for (name, tag) in [("periodic", 7u16), ("keyed_periodic", 8)] {
            sc2.push(scn(format!("tick_schedules_shot/{}/p{}", name, p), &tspec, vec![pe(0, tag, 1), StepUntil(When::Abs(3 * p as i64 + 1))]));
            sc2.push(scn(format!("tick_schedules_shot/{}/p{}/steps", name, p), &tspec, vec![pe(0, tag, 1), Step, Step, Step]));
        }
    }
    fams.push(Family::new("model_origin", &["same_origin_order"], sc2).cap(cap));
    // Batches larger than the mailbox: the compound future has to wait.
    let mut sc3 = vec![];
    for c in [1usize, 2] {
        let a = NodeSpec::new("A", c).script(1, vec![sendp(0, 1, 100)]).out(vec![to(1)]);
        let b = NodeSpec::new("B", 1);
        let x = NodeSpec::new("X", 1).script(1, vec![sendp(0, 1, 200)]).out(vec![to(0)]);
        let spec = Arc::new(BenchSpec::new(vec![a, b, x]));
        for k in (c + 1)..=(c + 3) {
            let mut cmds: Vec<Cmd> = (0..k)
                .map(|j| Sched { node: 0, kind: if j % 2 == 0 { SKind::Once } else { SKind::Keyed }, when: When::Abs(1), tag: 1, val: j as i64, slot: j })
                .collect();
            cmds.push(Sched { node: 2, kind: SKind::Once, when: When::Abs(1), tag: 1, val: 50, slot: 9 });
            cmds.push(Step);
            sc3.push(scn(format!("overflow/cap{}/k{}", c, k), &spec, cmds));
        }
    }
    // Same, but the competing sender's event comes from another origin (the
    // model's own context), so that it is a separate task that can run in
    // parallel with the compound future of the driver's batch.
    for c in [1usize, 2] {
        let a = NodeSpec::new("A", c).script(1, vec![Op::ReadTime]);
        let x = NodeSpec::new("X", 2)
            .script(2, vec![sched_self(SKind::Once, When::Abs(1), 3, 9), sched_self(SKind::Once, When::Abs(1), 3, 9)])
            .script(3, vec![sendp(0, 1, 200)])
            .out(vec![to(0)]);
        let spec = Arc::new(BenchSpec::new(vec![a, x]));
        for k in (c + 1)..=(c + 2) {
            let mut cmds: Vec<Cmd> = vec![pe(1, 2, 0)];
            cmds.extend((0..k).map(|j| Sched { node: 0, kind: SKind::Once, when: When::Abs(1), tag: 1, val: j as i64, slot: j }));
            cmds.push(Step);
            sc3.push(scn(format!("overflow_x/cap{}/k{}", c, k), &spec, cmds));
        }
    }
    fams.push(Family::new("mailbox_overflow", &["same_origin_order", "sched_missed"], sc3).cap(cap));
    // A cancelled action between live actions of one origin must not split their group.
    {
        let a9 = NodeSpec::new("A", 4).script(1, vec![Op::ReadTime]);
        let b9 = NodeSpec::new("B", 2).script(1, vec![Op::ReadTime]);
        let mut sp9 = BenchSpec::new(vec![a9, b9]);
        sp9.srcs = vec![vec![to(0)], vec![to(1)]];
        let runs: Vec<Scenario> = cancelled_runs(&Arc::new(sp9)).into_iter().filter(|s| s.label.ends_with("/middle") || tier != "quick").collect();
        fams.push(Family::new("cancelled_runs", &["same_origin_order", "sched_missed", "sched_wrong_time"], runs).cap(cap));
    }
    // Long same-time batches of one origin (20, 70 and 150 events; default schedule on one thread, real threads).
    {
        let k_node = NodeSpec::new("K", 4).script(1, vec![Op::ReadTime]);
        let other = NodeSpec::new("W", 4).script(1, vec![Op::ReadTime]);
        let lspec = Arc::new(BenchSpec::new(vec![k_node, other]));
        let sc_long: Vec<Scenario> = [20usize, 70, 150]
            .iter()
            .map(|n| {
                let mut cmds = vec![Sched { node: 1, kind: SKind::Once, when: When::Abs(1), tag: 1, val: 999, slot: 9 }];
                cmds.extend((0..*n).map(|i| Sched { node: 0, kind: SKind::Once, when: When::Abs(1), tag: 1, val: i as i64, slot: 9 }));
                cmds.push(Step);
                scn(format!("long_batch/{}", n), &lspec, cmds)
            })
            .collect();
        fams.push(Family::new("long_batches_st", &["same_origin_order", "sched_missed"], sc_long.clone()).uncontrolled(1, 1).hang_violation());
        fams.push(Family::new("long_batches_mt2", &["same_origin_order", "sched_missed"], sc_long).uncontrolled(2, 3).hang_violation());
    }
    // Absolute and relative deadlines for the same instant, at ordinary and at extreme start times.
    let alpha_e: Vec<Cmd> = vec![
        Sched { node: 0, kind: SKind::Once, when: When::Abs(2), tag: 1, val: 1, slot: 0 },
        Sched { node: 0, kind: SKind::Once, when: When::Rel(2), tag: 1, val: 2, slot: 0 },
        SchedSrc { src: 0, kind: SKind::Once, when: When::Abs(2), tag: 1, val: 3, slot: 0 },
        Sched { node: 0, kind: SKind::Keyed, when: When::Rel(2), tag: 1, val: 4, slot: 1 },
        Sched { node: 0, kind: SKind::Periodic(1), when: When::Rel(1), tag: 1, val: 5, slot: 0 },
        StepUntil(When::Rel(1)),
    ];
    for (name, secs) in [("abs_and_rel", 1000i64), ("abs_and_rel@-1s", -1), ("abs_and_rel@2^31", (1i64 << 31) - 1), ("abs_and_rel@2^33", (1i64 << 33) - 1), ("abs_and_rel@2^40", 1i64 << 40)] {
        let mut sc_e = vec![];
        for (i, mut cmds) in seqs(&alpha_e, 4).into_iter().enumerate() {
            // Relative deadlines are given for the start time: no stepping before the last request.
            if cmds.iter().filter(|c| !matches!(c, StepUntil(_))).count() < 2 || cmds.iter().any(|c| matches!(c, StepUntil(_))) {
                continue;
            }
            cmds.push(StepUntil(When::Abs(3)));
            sc_e.push(scn(format!("mixed#{}", i), &spec, cmds));
        }
        fams.push(Family::new(name, &["same_origin_order", "sched_missed", "sched_wrong_time"], sc_e).cap(cap).epoch(secs));
    }
    fams
}

// ---------------------------------------------------------------------------
// C08
// ---------------------------------------------------------------------------

pub const TAGS_SCHED: &[&str] = &[
    "sched_validation",
    "pending_not_future",
    "sched_missed",
    "sched_dup",
    "sched_wrong_time",
    "sched_overdue",
];

pub fn c08(tier: &str) -> Vec<Family> {
    let _ = tier;
    // Handler-side requests: tag 20+k performs request k from inside a handler.
    let whens = [When::Abs(0), When::Abs(1), When::Abs(2), When::Abs(3), When::Rel(0), When::Rel(1)];
    let kinds = [
        SKind::Once,
        SKind::Keyed,
        SKind::Periodic(0),
        SKind::Periodic(1),
        SKind::KeyedPeriodic(0),
        SKind::KeyedPeriodic(2),
    ];
    let mut a = NodeSpec::new("A", 2).script(1, vec![Op::ReadTime]);
    let mut k = 0u16;
    let mut handler_tags = vec![];
    for w in whens {
        for kd in kinds {
            a = a.script(20 + k, vec![sched_self(kd, w, 1, (k % 4) as usize)]);
            handler_tags.push(20 + k);
            k += 1;
        }
    }
    let mut spec = BenchSpec::new(vec![a]);
    spec.srcs = vec![vec![to(0)]];
    let spec = Arc::new(spec);
    let mut sc = vec![];
    // Prefixes bring the simulation to time 0, 1 or 2 (with or without pending actions).
    let prefixes: Vec<(&str, Vec<Cmd>)> = vec![
        ("t0", vec![]),
        ("t1", vec![Cmd::StepUntil(When::Abs(1))]),
        (
            "t2+pending",
            vec![
                Cmd::Sched { node: 0, kind: SKind::Periodic(2), when: When::Abs(2), tag: 1, val: 99, slot: 3 },
                Cmd::Step,
            ],
        ),
    ];
    let suffixes: Vec<(&str, Vec<Cmd>)> = vec![
        ("steps", vec![Cmd::Step, Cmd::Step]),
        ("until", vec![Cmd::StepUntil(When::Abs(5))]),
    ];
    for (pn, pre) in &prefixes {
        for (sn, suf) in &suffixes {
            for w in whens {
                for kd in kinds {
                    for variant in 0..2 {
                        let mut cmds = pre.clone();
                        let c = if variant == 0 {
                            Cmd::Sched { node: 0, kind: kd, when: w, tag: 1, val: 5, slot: 0 }
                        } else {
                            Cmd::SchedSrc { src: 0, kind: kd, when: w, tag: 1, val: 6, slot: 1 }
                        };
                        cmds.push(c);
                        cmds.extend(suf.clone());
                        sc.push(scn(format!("driver/{}/{}/{:?}/{:?}/v{}", pn, sn, w, kd, variant), &spec, cmds));
                    }
                }
            }
            for t in &handler_tags {
                let mut cmds = pre.clone();
                cmds.push(pe(0, *t, 3));
                cmds.extend(suf.clone());
                sc.push(scn(format!("handler/{}/{}/tag{}", pn, sn, t), &spec, cmds));
            }
        }
    }
    // The same requests made from `Model::init()` (the time seen there is the start time).
    let mut sc_init = vec![];
    for w in whens {
        for kd in kinds {
            let a = NodeSpec::new("A", 2).script(1, vec![Op::ReadTime]).init(vec![Op::ReadTime, sched_self(kd, w, 1, 0), Op::ReadTime]);
            let spec = Arc::new(BenchSpec::new(vec![a]));
            for (sn, suf) in &suffixes {
                sc_init.push(scn(format!("init/{}/{:?}/{:?}", sn, w, kd), &spec, suf.clone()));
            }
        }
    }
    // Very many events accepted for one instant, on the real multi-threaded executor: every one fires.
    let mk_big = |busy: usize| -> Vec<Scenario> {
        let mut big = vec![];
        for n in [700usize, 1500] {
            let spec = big_fan(n, busy, false);
            // The events for the busy models come first (one compound task delivers all of them in order).
            let mut cmds: Vec<Cmd> = (n + 1..=n + busy).map(|i| Cmd::Sched { node: i, kind: SKind::Once, when: When::Rel(1), tag: 3, val: i as i64, slot: 0 }).collect();
            cmds.extend((1..=n).map(|i| Cmd::Sched { node: i, kind: SKind::Once, when: When::Rel(1), tag: 2, val: i as i64, slot: 0 }));
            cmds.push(Cmd::Step);
            cmds.push(Cmd::Step);
            big.push(scn(format!("same_instant/{}events", n), &spec, cmds));
        }
        big
    };
    // Accepted same-time events from one origin that exceed the target mailbox: every one fires.
    let mut batches = family_named(c03(tier), "scheduler_batches");
    batches.tags = TAGS_SCHED;
    batches.hang_is_violation = true;
    let mut sc_ct = vec![];
    for kd in [SKind::Keyed, SKind::KeyedPeriodic(1)] {
        for srcv in 0..2 {
            for live_behind in [false, true] {
                let keyed = if srcv == 0 {
                    Cmd::Sched { node: 0, kind: kd, when: When::Abs(2), tag: 1, val: 5, slot: 0 }
                } else {
                    Cmd::SchedSrc { src: 0, kind: kd, when: When::Abs(2), tag: 1, val: 6, slot: 0 }
                };
                let mut cmds = vec![keyed];
                if live_behind {
                    cmds.push(Cmd::Sched { node: 0, kind: SKind::Once, when: When::Abs(2), tag: 1, val: 7, slot: 9 });
                }
                cmds.extend([Cmd::Cancel { slot: 0 }, Cmd::StepUntil(When::Abs(2)), Cmd::StepUntil(When::Abs(4))]);
                sc_ct.push(scn(format!("cancelled_at_target/{:?}/v{}/live{}", kd, srcv, live_behind), &spec, cmds));
            }
        }
    }
    vec![
        batches,
        Family::new("cancelled_at_target", TAGS_SCHED, sc_ct).hang_violation(),
        Family::new("same_instant_mt2", TAGS_SCHED_BIG, mk_big(1)).uncontrolled(2, 2).hang_violation(),
        Family::new("same_instant_mt4", TAGS_SCHED_BIG, mk_big(3)).uncontrolled(4, 2).hang_violation(),
        Family::new("request_validation", TAGS_SCHED, sc).hang_violation(),
        Family::new("requests_from_init", TAGS_SCHED_INIT, sc_init).hang_violation(),
        Family::new("requests_from_init@-1s", TAGS_SCHED_INIT, {
            let a = NodeSpec::new("A", 2).script(1, vec![Op::ReadTime]).init(vec![
                Op::ReadTime,
                sched_self(SKind::Once, When::Rel(1), 1, 0),
                sched_self(SKind::Periodic(2), When::Abs(3), 1, 0),
                sched_self(SKind::Once, When::Abs(0), 1, 0),
            ]);
            let spec = Arc::new(BenchSpec::new(vec![a]));
            suffixes.iter().map(|(sn, suf)| scn(format!("init@-1s/{}", sn), &spec, suf.clone())).collect()
        })
        .hang_violation()
        .epoch(-1),
    ]
}

/// Accepted events fire (and the stepping call does not give up on them with a bogus stall report).
pub const TAGS_SCHED_BIG: &[&str] = &["sched_missed", "sched_dup", "sched_wrong_time", "sched_overdue", "report_exact", "error_class"];

pub const TAGS_SCHED_INIT: &[&str] = &[
    "sched_validation", "pending_not_future", "sched_missed", "sched_dup", "sched_wrong_time", "sched_overdue", "time_read", "handler_time",
];

// ---------------------------------------------------------------------------
// C09
// ---------------------------------------------------------------------------

pub const TAGS_CANCEL_RUNS: &[&str] = &["cancel_ignored", "sched_missed", "sched_dup", "sched_wrong_time", "step_time", "cmd_time", "handler_time", "same_origin_order"];

/// Runs of two or three cancelled actions that are adjacent in the scheduler queue (at one time
/// stamp or at successive ones, at the head of the queue, between live actions of the same
/// origin, at its tail), of every keyed kind; the live actions around them must run, in order,
/// and a step never stops at the time of a cancelled action. `spec` needs two nodes and source 0.
pub fn cancelled_runs(spec: &Arc<BenchSpec>) -> Vec<Scenario> {
    use Cmd::*;
    let live = |t: i64, v: i64| Sched { node: 0, kind: SKind::Once, when: When::Abs(t), tag: 1, val: v, slot: 9 };
    let keyed = |kind: usize, t: i64, v: i64, slot: usize| -> Cmd {
        match kind {
            0 => Sched { node: 0, kind: SKind::Keyed, when: When::Abs(t), tag: 1, val: v, slot },
            1 => Sched { node: 0, kind: SKind::KeyedPeriodic(1), when: When::Abs(t), tag: 1, val: v, slot },
            2 => SchedSrc { src: 0, kind: SKind::Keyed, when: When::Abs(t), tag: 1, val: v, slot },
            _ => SchedSrc { src: 0, kind: SKind::KeyedPeriodic(1), when: When::Abs(t), tag: 1, val: v, slot },
        }
    };
    let mut sc = vec![];
    for k1 in 0..4usize {
        for k2 in 0..4usize {
            for (shape, times) in [("same_time", [2i64, 2, 2]), ("successive", [1, 2, 3]), ("pair_then_gap", [1, 1, 3])] {
                for run in [2usize, 3] {
                    for (pos, before, after) in [("head", 0usize, 2usize), ("middle", 2, 2), ("tail", 2, 0)] {
                        let mut cmds = vec![];
                        let t0 = times[0];
                        for b in 0..before {
                            cmds.push(live(t0, 10 + b as i64));
                        }
                        for r in 0..run {
                            cmds.push(keyed(if r % 2 == 0 { k1 } else { k2 }, times[r], 20 + r as i64, r));
                        }
                        for a in 0..after {
                            cmds.push(live(times[run - 1], 30 + a as i64));
                        }
                        cmds.push(live(5, 40));
                        for r in 0..run {
                            cmds.push(Cancel { slot: r });
                        }
                        cmds.extend([Step, Step, StepUntil(When::Abs(6))]);
                        sc.push(scn(format!("cancelled_run/{}/{}x{}{}/{}", shape, run, k1, k2, pos), spec, cmds));
                    }
                }
            }
        }
    }
    sc
}

pub fn c09(tier: &str) -> Vec<Family> {
    let cap = if tier == "quick" { 20_000 } else { 1_000_000 };
    // A handles events; tag 5 cancels slot 0, tag 6 cancels slot 1 (clone),
    // tag 7 schedules a keyed periodic event on itself (slot 2), tag 8 cancels slot 2.
    let a = NodeSpec::new("A", 4)
        .script(1, vec![Op::ReadTime])
        .script(5, vec![Op::Cancel { slot: 0 }])
        .script(6, vec![Op::CancelClone { slot: 1 }])
        .script(7, vec![sched_self(SKind::KeyedPeriodic(1), When::Rel(1), 1, 2)])
        .script(8, vec![Op::Cancel { slot: 2 }])
        .script(9, vec![Op::DropAuto { slot: 1 }]);
    let b = NodeSpec::new("B", 2).script(5, vec![Op::Cancel { slot: 0 }]).script(1, vec![Op::ReadTime]);
    let mut spec = BenchSpec::new(vec![a, b]);
    spec.srcs = vec![vec![to(0)], vec![to(1)]];
    let spec = Arc::new(spec);
    use Cmd::*;
    let alpha: Vec<Cmd> = vec![
        Sched { node: 0, kind: SKind::Keyed, when: When::Abs(2), tag: 1, val: 1, slot: 0 },
        Sched { node: 0, kind: SKind::KeyedPeriodic(1), when: When::Abs(1), tag: 1, val: 2, slot: 1 },
        Sched { node: 0, kind: SKind::Once, when: When::Abs(2), tag: 5, val: 3, slot: 9 },
        Sched { node: 0, kind: SKind::Once, when: When::Abs(2), tag: 6, val: 4, slot: 9 },
        SchedSrc { src: 0, kind: SKind::Keyed, when: When::Abs(2), tag: 1, val: 5, slot: 0 },
        SchedSrc { src: 0, kind: SKind::KeyedPeriodic(1), when: When::Abs(1), tag: 1, val: 6, slot: 1 },
        Sched { node: 1, kind: SKind::Once, when: When::Abs(2), tag: 5, val: 7, slot: 9 },
        Cancel { slot: 0 },
        CancelClone { slot: 1 },
        IntoAuto { slot: 1 },
        DropAuto { slot: 1 },
        KeepClone { slot: 1, to: 5 },
        Step,
        StepUntil(When::Abs(2)),
        ProcEvent { node: 0, tag: 7, val: 8 },
        ProcEvent { node: 0, tag: 8, val: 9 },
        Sched { node: 0, kind: SKind::Once, when: When::Abs(1), tag: 1, val: 10, slot: 9 },
    ];
    let depth = if tier == "quick" { 3 } else { 4 };
    let mut sc = vec![];
    for (i, mut cmds) in seqs(&alpha, depth).into_iter().enumerate() {
        if !cmds.iter().any(|c| matches!(c, Sched { .. } | SchedSrc { .. } | ProcEvent { tag: 7, .. })) {
            continue;
        }
        cmds.push(StepUntil(When::Abs(4)));
        sc.push(scn(format!("seq#{}", i), &spec, cmds));
    }
    // A cancelled keyed action at every position of a same-time, same-origin
    // batch of four (model inputs and source actions, one-shot and periodic).
    let mut sc2 = vec![];
    for pos in 0..4usize {
        for (vi, keyed) in [
            Sched { node: 0, kind: SKind::Keyed, when: When::Abs(2), tag: 1, val: 50, slot: 0 },
            Sched { node: 0, kind: SKind::KeyedPeriodic(1), when: When::Abs(2), tag: 1, val: 51, slot: 0 },
            SchedSrc { src: 0, kind: SKind::Keyed, when: When::Abs(2), tag: 1, val: 52, slot: 0 },
            SchedSrc { src: 0, kind: SKind::KeyedPeriodic(1), when: When::Abs(2), tag: 1, val: 53, slot: 0 },
        ]
        .into_iter()
        .enumerate()
        {
            for cancel_when in 0..2 {
                let mut cmds = vec![];
                for j in 0..4usize {
                    if j == pos {
                        cmds.push(keyed.clone());
                    } else if j % 2 == 0 {
                        cmds.push(Sched { node: 0, kind: SKind::Once, when: When::Abs(2), tag: 1, val: j as i64, slot: 9 });
                    } else {
                        cmds.push(SchedSrc { src: 0, kind: SKind::Periodic(1), when: When::Abs(2), tag: 1, val: j as i64, slot: 9 });
                    }
                }
                if cancel_when == 0 {
                    cmds.push(Cancel { slot: 0 });
                    cmds.push(StepUntil(When::Abs(4)));
                } else {
                    cmds.push(Step);
                    cmds.push(Cancel { slot: 0 });
                    cmds.push(StepUntil(When::Abs(4)));
                }
                sc2.push(scn(format!("batch/pos{}/kind{}/cancel{}", pos, vi, cancel_when), &spec, cmds));
            }
        }
    }
    // Auto keys dropped while other owners of the key exist: a kept clone, or
    // an occurrence of the periodic action in flight (dropped by a handler).
    let mut sc3 = vec![];
    for (ki, sched) in [
        Sched { node: 0, kind: SKind::Keyed, when: When::Abs(2), tag: 1, val: 60, slot: 1 },
        Sched { node: 0, kind: SKind::KeyedPeriodic(1), when: When::Abs(2), tag: 1, val: 61, slot: 1 },
        SchedSrc { src: 0, kind: SKind::KeyedPeriodic(1), when: When::Abs(2), tag: 1, val: 62, slot: 1 },
    ]
    .into_iter()
    .enumerate()
    {
        sc3.push(scn(format!("auto/kind{}/clone_kept", ki), &spec, vec![sched.clone(), KeepClone { slot: 1, to: 5 }, IntoAuto { slot: 1 }, DropAuto { slot: 1 }, StepUntil(When::Abs(4))]));
        sc3.push(scn(format!("auto/kind{}/clone_kept_after_first", ki), &spec, vec![sched.clone(), KeepClone { slot: 1, to: 5 }, IntoAuto { slot: 1 }, StepUntil(When::Abs(2)), DropAuto { slot: 1 }, StepUntil(When::Abs(4))]));
        // Dropped by an earlier same-time event of the same model (tag 9).
        sc3.push(scn(
            format!("auto/kind{}/dropped_by_handler", ki),
            &spec,
            vec![
                Sched { node: 0, kind: SKind::Once, when: When::Abs(3), tag: 9, val: 63, slot: 9 },
                sched.clone(),
                IntoAuto { slot: 1 },
                StepUntil(When::Abs(5)),
            ],
        ));
        sc3.push(scn(
            format!("auto/kind{}/dropped_by_own_handler", ki),
            &spec,
            vec![
                Sched { node: 0, kind: SKind::KeyedPeriodic(1), when: When::Abs(2), tag: 9, val: 64, slot: 1 },
                IntoAuto { slot: 1 },
                StepUntil(When::Abs(5)),
            ],
        ));
    }
    // A long same-time batch: the cancelling event first, many others, the keyed event last.
    let sc_lc: Vec<Scenario> = [20usize, 70]
        .iter()
        .flat_map(|n| {
            let mk = |keyed: Cmd| {
                let mut cmds = vec![Sched { node: 0, kind: SKind::Once, when: When::Abs(2), tag: 5, val: 3, slot: 9 }];
                cmds.extend((0..*n).map(|i| Sched { node: 0, kind: SKind::Once, when: When::Abs(2), tag: 1, val: 100 + i as i64, slot: 9 }));
                cmds.push(keyed);
                cmds.push(Step);
                cmds.push(Step);
                cmds
            };
            vec![
                scn(format!("long_cancel_batch/{}/keyed", n), &spec, mk(Sched { node: 0, kind: SKind::Keyed, when: When::Abs(2), tag: 1, val: 1, slot: 0 })),
                scn(format!("long_cancel_batch/{}/keyed_periodic", n), &spec, mk(Sched { node: 0, kind: SKind::KeyedPeriodic(1), when: When::Abs(2), tag: 1, val: 2, slot: 0 })),
            ]
        })
        .collect();
    vec![
        Family::new("long_cancel_batches_st", &["cancel_ignored", "same_origin_order", "sched_missed"], sc_lc.clone()).uncontrolled(1, 1).hang_violation(),
        Family::new("long_cancel_batches_mt2", &["cancel_ignored", "same_origin_order", "sched_missed"], sc_lc).uncontrolled(2, 2).hang_violation(),
        Family::new("cancelled_runs", TAGS_CANCEL_RUNS, cancelled_runs(&spec)).cap(cap),
        Family::new("auto_keys", &["cancel_ignored", "sched_missed", "sched_dup", "sched_wrong_time"], sc3).cap(cap),
        Family::new(
            "cancellation_sequences",
            &["cancel_ignored", "sched_missed", "sched_dup", "sched_wrong_time"],
            sc,
        )
        .cap(cap),
        Family::new(
            "batch_positions",
            &["cancel_ignored", "sched_missed", "sched_dup", "sched_wrong_time"],
            sc2,
        )
        .cap(cap),
    ]
}

// ---------------------------------------------------------------------------
// C10
// ---------------------------------------------------------------------------

pub fn c10(tier: &str) -> Vec<Family> {
    let cap = if tier == "quick" { 5_000 } else { 200_000 };
    let a = NodeSpec::new("A", 1).script(1, vec![Op::ReadTime]);
    let b = NodeSpec::new("B", 1).script(1, vec![sched_self(SKind::Periodic(2), When::Rel(1), 2, 0)]);
    let mut spec = BenchSpec::new(vec![a, b]);
    spec.srcs = vec![vec![to(0), to(1)]];
    let spec = Arc::new(spec);
    use Cmd::*;
    let series: Vec<Vec<Cmd>> = {
        let mut v = vec![];
        for t0 in 1..=3i64 {
            for p in [1u64, 2, 3, 1_000_000_000] {
                v.push(vec![Sched { node: 0, kind: SKind::Periodic(p), when: When::Abs(t0), tag: 1, val: t0 * 10 + p as i64 % 7, slot: 0 }]);
            }
        }
        // Two and three coinciding series, different origins (driver, source, model).
        v.push(vec![
            Sched { node: 0, kind: SKind::Periodic(2), when: When::Abs(2), tag: 1, val: 1, slot: 0 },
            Sched { node: 0, kind: SKind::KeyedPeriodic(3), when: When::Abs(3), tag: 1, val: 2, slot: 0 },
        ]);
        v.push(vec![
            Sched { node: 0, kind: SKind::Periodic(1), when: When::Abs(1), tag: 1, val: 1, slot: 0 },
            SchedSrc { src: 0, kind: SKind::Periodic(2), when: When::Abs(2), tag: 2, val: 2, slot: 0 },
            ProcEvent { node: 1, tag: 1, val: 3 },
        ]);
        v.push(vec![
            Sched { node: 0, kind: SKind::KeyedPeriodic(2), when: When::Abs(1), tag: 1, val: 1, slot: 0 },
            Sched { node: 1, kind: SKind::Periodic(2), when: When::Abs(1), tag: 2, val: 2, slot: 1 },
            SchedSrc { src: 0, kind: SKind::KeyedPeriodic(1), when: When::Abs(2), tag: 2, val: 3, slot: 1 },
        ]);
        v
    };
    let moves: Vec<Cmd> = vec![
        Step,
        StepUntil(When::Rel(1)),
        StepUntil(When::Rel(2)),
        StepUntil(When::Rel(3)),
        Cancel { slot: 0 },
    ];
    let depth = if tier == "quick" { 3 } else { 5 };
    let partitions = seqs(&moves, depth);
    let mut sc = vec![];
    for (si, ser) in series.iter().enumerate() {
        for (pi, part) in partitions.iter().enumerate() {
            let mut cmds = ser.clone();
            cmds.extend(part.clone());
            sc.push(scn(format!("series{}/partition{}", si, pi), &spec, cmds));
        }
    }
    // A keyed series cancelled by an earlier same-time event of the same origin
    // at one of its occurrence times: that occurrence and all later ones must
    // not run, whatever the partition of the horizon.
    let a2 = NodeSpec::new("A", 2).script(1, vec![Op::ReadTime]).script(5, vec![Op::Cancel { slot: 0 }]);
    let spec2 = Arc::new(BenchSpec::new(vec![a2]));
    let mut sc_c = vec![];
    for ct in 1..=3i64 {
        for (pi, part) in partitions.iter().enumerate().filter(|(_, p)| !p.iter().any(|c| matches!(c, Cancel { .. }))) {
            let mut cmds = vec![
                Sched { node: 0, kind: SKind::Once, when: When::Abs(ct), tag: 5, val: 70, slot: 9 },
                Sched { node: 0, kind: SKind::KeyedPeriodic(1), when: When::Abs(1), tag: 1, val: 71, slot: 0 },
            ];
            cmds.extend(part.clone());
            cmds.push(StepUntil(When::Abs(5)));
            sc_c.push(scn(format!("cancel_at{}/partition{}", ct, pi), &spec2, cmds));
        }
    }
    let tags_c10: &'static [&'static str] = &["sched_missed", "sched_dup", "sched_wrong_time", "step_time", "sched_overdue", "handler_time", "cmd_time", "cancel_ignored"];
    let fam_c = Family::new("cancelled_at_occurrence", tags_c10, sc_c).cap(cap);
    let mut out = vec![Family::new(
        "periodic_partitions",
        &["sched_missed", "sched_dup", "sched_wrong_time", "step_time", "sched_overdue", "handler_time", "cmd_time"],
        sc,
    )
    .cap(cap)];
    out.push(fam_c);
    // Periodic source actions whose source has several connections to one model with a
    // small mailbox (the deliveries of one occurrence have to wait for space).
    {
        let mut sc_m = vec![];
        for c in [1usize, 2] {
            for nconn in [2usize, 3, 4] {
                let a = NodeSpec::new("A", c).script(1, vec![Op::ReadTime]);
                let mut spec = BenchSpec::new(vec![a]);
                let mut conns = vec![to(0); nconn];
                conns[nconn - 1] = tom(0, Mode::Map(100));
                spec.srcs = vec![conns];
                let spec = Arc::new(spec);
                for (pi, p) in [1u64, 2].iter().enumerate() {
                    let mut cmds = vec![SchedSrc { src: 0, kind: SKind::Periodic(*p), when: When::Abs(1), tag: 1, val: 10, slot: 0 }];
                    if pi == 1 {
                        cmds.push(SchedSrc { src: 0, kind: SKind::KeyedPeriodic(1), when: When::Abs(2), tag: 1, val: 20, slot: 1 });
                    }
                    for tail in [vec![StepUntil(When::Abs(4))], vec![Step, Step, StepUntil(When::Abs(4))]] {
                        let mut c2 = cmds.clone();
                        c2.extend(tail);
                        sc_m.push(scn(format!("multi_conn/cap{}/conns{}/p{}/{}", c, nconn, p, c2.len()), &spec, c2));
                    }
                }
            }
        }
        out.push(Family::new("periodic_sources_multi", &["sched_missed", "sched_dup", "sched_wrong_time", "step_time", "sched_overdue", "handler_time", "cmd_time", "delivery_lost", "delivery_dup"], sc_m).cap(cap));
    }
    out.push(Family::new("far_future", &["sched_missed", "sched_dup", "sched_wrong_time", "step_time", "sched_overdue", "handler_time", "cmd_time"], far_future_scenarios(&spec)).cap(cap));
    {
        // 150 and 400 models, each with its own periodic series (distinct origins), on the real multi-threaded executor.
        let many = |n: usize| -> Arc<BenchSpec> {
            let nodes: Vec<NodeSpec> = (0..n).map(|i| NodeSpec::new(&format!("p{}", i), 2).init(vec![sched_self(SKind::Periodic(1), When::Rel(1), 2, 0)]).script(2, vec![Op::ReadTime])).collect();
            Arc::new(BenchSpec::new(nodes))
        };
        let sc_m: Vec<Scenario> = [150usize, 400].iter().map(|n| scn(format!("many_series/{}", n), &many(*n), vec![Sched { node: 0, kind: SKind::Periodic(1), when: When::Rel(1), tag: 2, val: 5, slot: 0 }, Step, Step, StepUntil(When::Rel(1))])).collect();
        let tags_m: &'static [&'static str] = &["sched_missed", "sched_dup", "sched_wrong_time", "step_time", "sched_overdue", "handler_time", "cmd_time", "init_missing", "report_exact", "error_class"];
        out.push(Family::new("many_series_mt2", tags_m, sc_m.clone()).uncontrolled(2, 2).hang_violation());
        out.push(Family::new("many_series_mt4", tags_m, sc_m).uncontrolled(4, 2).hang_violation());
    }
    {
        // Cancelled (periodic) actions inside runs of same-time actions: no occurrence after the cancellation.
        let a9 = NodeSpec::new("A", 4).script(1, vec![Op::ReadTime]);
        let b9 = NodeSpec::new("B", 2).script(1, vec![Op::ReadTime]);
        let mut sp9 = BenchSpec::new(vec![a9, b9]);
        sp9.srcs = vec![vec![to(0)], vec![to(1)]];
        let runs: Vec<Scenario> = cancelled_runs(&Arc::new(sp9)).into_iter().enumerate().filter(|(i, _)| tier != "quick" || i % 2 == 0).map(|(_, s)| s).collect();
        out.push(Family::new("cancelled_runs", &["cancel_ignored", "sched_missed", "sched_dup", "sched_wrong_time", "step_time", "cmd_time", "handler_time"], runs).cap(cap));
        // Periodic events armed from init() with relative and absolute first deadlines (the time seen in init is the start time).
        let mut sc_i = vec![];
        for p in [1u64, 2, 1_000_000_000] {
            for w in [When::Rel(1), When::Rel(2), When::Abs(2)] {
                for kd in [SKind::Periodic(p), SKind::KeyedPeriodic(p)] {
                    let m = NodeSpec::new("M", 2).script(1, vec![Op::ReadTime]).init(vec![Op::ReadTime, sched_self(kd, w, 1, 0)]);
                    let spi = Arc::new(BenchSpec::new(vec![m]));
                    for tail in [vec![Step, Step, Step], vec![StepUntil(When::Abs(4))], vec![Step, StepUntil(When::Rel(3))]] {
                        sc_i.push(scn(format!("from_init/{:?}/{:?}/{}", kd, w, tail.len()), &spi, tail));
                    }
                }
            }
        }
        let tags_i: &'static [&'static str] = &["sched_missed", "sched_dup", "sched_wrong_time", "step_time", "sched_overdue", "handler_time", "time_read", "cmd_time", "sched_validation"];
        // (These scenarios are finite: a stepping call that does not return is executing occurrences that do not exist.)
        out.push(Family::new("periodic_from_init", tags_i, sc_i.clone()).cap(cap).hang_violation());
        out.push(Family::new("periodic_from_init@-1s", tags_i, sc_i.clone()).cap(cap).epoch(-1).hang_violation());
        out.push(Family::new("periodic_from_init@2^33", tags_i, sc_i).cap(cap).epoch((1i64 << 33) - 1).hang_violation());
    }
    // The same series with start times before the epoch and crossing it.
    if let Some(base) = out.first() {
        let thin: Vec<Scenario> = base.scenarios.iter().enumerate().filter(|(i, _)| tier != "quick" || i % 4 == 0).map(|(_, s)| s.clone()).collect();
        let mut e1 = Family::new("periodic_partitions@-1s", base.tags, thin.clone()).cap(cap).epoch(-1);
        e1.dev_bound = base.dev_bound;
        let mut e2 = Family::new("periodic_partitions@-7s", base.tags, thin.clone()).cap(cap).epoch(-7);
        e2.dev_bound = base.dev_bound;
        let (tags, db) = (e1.tags, e1.dev_bound);
        out.push(e1);
        out.push(e2);
        for (name, secs) in [("periodic_partitions@2^31", (1i64 << 31) - 1), ("periodic_partitions@2^33", (1i64 << 33) - 1)] {
            let thin2: Vec<Scenario> = thin.iter().enumerate().filter(|(i, _)| i % 3 == 0).map(|(_, s)| s.clone()).collect();
            let mut e = Family::new(name, tags, thin2).cap(cap).epoch(secs);
            e.dev_bound = db;
            out.push(e);
        }
    }
    out
}

// ---------------------------------------------------------------------------
// C11
// ---------------------------------------------------------------------------

pub const TAGS_ERRORS: &[&str] = &[
    "error_class",
    "report_exact",
    "term_result",
    "term_time",
    "term_activity",
    "api_panic",
];

fn c11_spec(timeout_ms: u64) -> Arc<BenchSpec> {
    // A: top-level model with fault scripts; A.S: sub-model with fault scripts;
    // G: dropped mailbox (NoRecipient); O: orphan (MessageLoss).
    let faults = |n: NodeSpec| -> NodeSpec {
        n.script(1, vec![Op::ReadTime])
            .script(10, vec![Op::Panic(PanicKind::Str)])
            .script(11, vec![Op::Panic(PanicKind::String)])
            .script(12, vec![Op::Panic(PanicKind::Custom)])
            .script(13, vec![sendc(0, 1, 5)]) // to the dropped mailbox
            .script(14, vec![sendc(1, 1, 6)]) // to the orphan
            .script(15, vec![query(0, 1)]) // query loopback => deadlock
            .script(16, vec![Op::Block(900)])
            .script(17, vec![sendc(2, 10, 0)]) // make the sub-model panic
            .script(18, vec![sched_self(SKind::Once, When::Rel(1), 10, 0)]) // panic at the next step
            .script(19, vec![Op::UniQuery { port: 0, tag: 1, val: Val::C(3) }]) // query through a UniRequestor to the dropped mailbox
    };
    let mut a = faults(NodeSpec::new("A", 4)).out(vec![to(2)]).out(vec![to(3)]).out(vec![to(1)]).req(vec![to(0)]);
    a.unis = vec![to(2)];
    let mut s = faults(NodeSpec::new("S", 4).parent(0)).out(vec![to(2)]).out(vec![to(3)]).out(vec![to(1)]).req(vec![to(1)]);
    s.unis = vec![tom(2, Mode::Map(1))];
    let g = NodeSpec::new("G", 1).placement(Placement::Dropped);
    let o = NodeSpec::new("O", 2).placement(Placement::Orphan);
    let mut spec = BenchSpec::new(vec![a, s, g, o]);
    spec.srcs = vec![vec![to(0)], vec![to(2)]];
    spec.qsrcs = vec![vec![to(0)]];
    spec.timeout_ms = timeout_ms;
    Arc::new(spec)
}

fn c11_scenarios(tier: &str, spec: &Arc<BenchSpec>, with_timeout: bool) -> Vec<Scenario> {
    use Cmd::*;
    // Fault-injecting commands.
    let mut faults: Vec<(&str, Cmd)> = vec![
        ("panic_str", pe(0, 10, 0)),
        ("panic_string", pe(0, 11, 0)),
        ("panic_custom", pe(1, 12, 0)),
        ("panic_sub_via_parent", pe(0, 17, 0)),
        ("norecipient_model", pe(0, 13, 0)),
        ("norecipient_submodel", pe(1, 13, 0)),
        ("norecipient_source", ProcSrc { src: 1, tag: 1, val: 0 }),
        ("norecipient_uni", pe(0, 19, 0)),
        ("norecipient_uni_sub", pe(1, 19, 0)),
        ("message_loss", pe(0, 14, 0)),
        ("deadlock", pe(1, 15, 0)),
        ("panic_in_query", ProcQuery { node: 0, tag: 10, val: 0 }),
        ("bad_query", ProcQuery { node: 3, tag: 1, val: 0 }),
        ("invalid_deadline", StepUntil(When::Abs(-1))),
    ];
    if with_timeout {
        faults = vec![("timeout", pe(0, 16, 0)), ("timeout_sub", pe(1, 16, 0))];
    }
    // Timed faults (fault happens inside step / step_until).
    let timed: Vec<(&str, Vec<Cmd>)> = if with_timeout {
        vec![("timeout_in_step", vec![Sched { node: 0, kind: SKind::Once, when: When::Rel(1), tag: 16, val: 0, slot: 0 }, Step])]
    } else {
        vec![
            ("panic_in_step", vec![Sched { node: 0, kind: SKind::Once, when: When::Rel(1), tag: 10, val: 0, slot: 0 }, Step]),
            ("panic_in_step_until", vec![Sched { node: 1, kind: SKind::Once, when: When::Rel(1), tag: 11, val: 0, slot: 0 }, StepUntil(When::Rel(2))]),
            ("norecipient_sched_source", vec![SchedSrc { src: 1, kind: SKind::Once, when: When::Rel(1), tag: 1, val: 0, slot: 0 }, Step]),
            ("deadlock_in_step", vec![Sched { node: 0, kind: SKind::Once, when: When::Rel(1), tag: 15, val: 0, slot: 0 }, StepUntil(When::Rel(1))]),
            ("self_scheduled_panic", vec![pe(0, 18, 0), Step]),
        ]
    };
    let follow: Vec<Cmd> = vec![
        Step,
        StepUntil(When::Rel(1)),
        StepUntil(When::Rel(0)),
        pe(0, 1, 1),
        ProcQuery { node: 0, tag: 1, val: 1 },
        ProcSrc { src: 0, tag: 1, val: 1 },
    ];
    let fdepth = if tier == "quick" { 2 } else { 3 };
    let mut follows = vec![vec![]];
    follows.extend(seqs(&follow, if with_timeout { 1 } else { fdepth }));
    // Prefix: with an empty or non-empty scheduler queue, fault at position 0..2.
    let prefixes: Vec<(&str, Vec<Cmd>)> = vec![
        ("empty", vec![]),
        ("pending", vec![Sched { node: 0, kind: SKind::Periodic(1), when: When::Rel(2), tag: 1, val: 9, slot: 0 }]),
        ("pending+step", vec![Sched { node: 0, kind: SKind::Periodic(1), when: When::Rel(1), tag: 1, val: 9, slot: 0 }, Step, pe(0, 1, 3)]),
    ];
    let mut sc = vec![];
    for (pn, pre) in &prefixes {
        for (fname, fcmds) in faults
            .iter()
            .map(|(n, c)| (*n, vec![c.clone()]))
            .chain(timed.iter().map(|(n, c)| (*n, c.clone())))
        {
            for (k, fo) in follows.iter().enumerate() {
                let mut cmds = pre.clone();
                cmds.extend(fcmds.clone());
                cmds.extend(fo.clone());
                sc.push(scn(format!("{}/{}/follow{}", pn, fname, k), spec, cmds));
            }
        }
    }
    sc
}

pub fn c11(tier: &str) -> Vec<Family> {
    let spec = c11_spec(0);
    let sc = c11_scenarios(tier, &spec, false);
    let mut fams = vec![Family::new("fault_sequences_st", TAGS_ERRORS, sc).cap(2_000)];
    let sc_mt = c11_scenarios(tier, &spec, false);
    fams.push(Family::new("fault_sequences_mt", TAGS_ERRORS, sc_mt).uncontrolled(2, 1));
    // Init faults.
    let mut sc_init = vec![];
    for (name, op) in [
        ("panic", Op::Panic(PanicKind::Str)),
        ("norecipient", sendc(0, 1, 1)),
    ] {
        let a = NodeSpec::new("A", 2).out(vec![to(2)]);
        let s = NodeSpec::new("S", 2).parent(0).init(vec![op]).out(vec![to(2)]);
        let g = NodeSpec::new("G", 1).placement(Placement::Dropped);
        sc_init.push(scn(format!("init_{}", name), &Arc::new(BenchSpec::new(vec![a, s, g])), vec![]));
    }
    fams.push(Family::new("init_faults", TAGS_ERRORS, sc_init));
    // The same fault sequences in a simulation built on a thread on which an earlier
    // simulation was terminated by a model panic (state left behind must not leak into the reports).
    {
        let all = c11_scenarios("quick", &spec, false);
        let pre = all.iter().find(|s| s.label.contains("panic_custom")).cloned().expect("prelude scenario");
        let pre2 = all.iter().find(|s| s.label.contains("norecipient_submodel")).cloned().expect("prelude scenario");
        let mut sc_h = vec![];
        for (i, s) in all.iter().enumerate() {
            if !s.label.ends_with("follow0") && !(tier != "quick" && i % 5 == 0) {
                continue;
            }
            let mut a = s.clone();
            a.label = format!("after_panic/{}", s.label);
            sc_h.push(with_prelude(a, pre.clone()));
            let mut b = s.clone();
            b.label = format!("after_norecipient/{}", s.label);
            sc_h.push(with_prelude(b, pre2.clone()));
        }
        // A simulation without any model of its own (only a source whose target mailbox was
        // dropped): nothing in it ever polls a model before the failure is attributed.
        let g = NodeSpec::new("G", 1).placement(Placement::Dropped);
        let mut lone = BenchSpec::new(vec![g]);
        lone.srcs = vec![vec![to(0)]];
        let lone = Arc::new(lone);
        for (name, cmds) in [
            ("proc", vec![Cmd::ProcSrc { src: 0, tag: 1, val: 0 }, Cmd::Step]),
            ("sched", vec![Cmd::SchedSrc { src: 0, kind: SKind::Once, when: When::Rel(1), tag: 1, val: 0, slot: 0 }, Cmd::Step, Cmd::Step]),
        ] {
            sc_h.push(with_prelude(scn(format!("after_panic/no_models/{}", name), &lone, cmds.clone()), pre.clone()));
            sc_h.push(with_prelude(scn(format!("after_norecipient/no_models/{}", name), &lone, cmds.clone()), pre2.clone()));
            sc_h.push(scn(format!("fresh/no_models/{}", name), &lone, cmds));
        }
        fams.push(Family::new("fault_sequences_history", TAGS_ERRORS, sc_h).cap(2_000));
    }
    // Clock lag above tolerance.
    let mut sc_oos = vec![];
    for k in 1..=2usize {
        let mut sp = (*c11_spec(0)).clone();
        let mut answers = vec![None; k];
        answers.push(Some(5_000_000));
        sp.clock = ClockSpec { answers, schedules: vec![] };
        sp.tolerance_ns = Some(1_000_000);
        let sp = Arc::new(sp);
        for fo in [vec![], vec![Cmd::Step], vec![Cmd::StepUntil(When::Rel(1)), pe(0, 1, 1)], vec![pe(0, 1, 1), Cmd::Step]] {
            let mut cmds = vec![
                Cmd::Sched { node: 0, kind: SKind::Periodic(1), when: When::Rel(1), tag: 1, val: 9, slot: 0 },
                Cmd::Step,
                Cmd::Step,
            ];
            cmds.extend(fo);
            sc_oos.push(scn(format!("out_of_sync/at{}", k), &sp, cmds));
        }
    }
    // A lag exactly equal to the tolerance is not an error.
    for k in 1..=2usize {
        let mut sp = (*c11_spec(0)).clone();
        let mut answers = vec![None; k];
        answers.push(Some(1_000_000));
        sp.clock = ClockSpec { answers, schedules: vec![] };
        sp.tolerance_ns = Some(1_000_000);
        let sp = Arc::new(sp);
        sc_oos.push(scn(
            format!("lag_equal_tolerance/at{}", k),
            &sp,
            vec![Cmd::Sched { node: 0, kind: SKind::Periodic(1), when: When::Rel(1), tag: 1, val: 9, slot: 0 }, Cmd::Step, Cmd::Step, Cmd::StepUntil(When::Rel(2)), pe(0, 1, 1)],
        ));
    }
    fams.push(Family::new("out_of_sync", TAGS_ERRORS, sc_oos));
    // Timeouts (wall-clock: few scenarios).
    let tspec = c11_spec(200);
    let sc_t = c11_scenarios(tier, &tspec, true);
    let n_t = if tier == "quick" { 6 } else { sc_t.len() };
    let sc_t: Vec<Scenario> = sc_t.into_iter().take(n_t).collect();
    // With a step timeout the single-threaded executor runs on a helper
    // thread, where the pick hook is not installed: no controlled yields.
    fams.push(Family::new("timeouts_st", TAGS_ERRORS, sc_t).uncontrolled(1, 1));
    // The ordinary fault sequences on the single-threaded executor with a generous step timeout
    // configured (the executor then runs on a helper thread): same classification and attribution.
    let gspec = c11_spec(20_000);
    let sc_g: Vec<Scenario> = c11_scenarios("quick", &gspec, false).into_iter().enumerate().filter(|(i, s)| s.label.ends_with("follow0") || (tier != "quick" && i % 3 == 0)).map(|(_, s)| s).collect();
    fams.push(Family::new("fault_sequences_st_with_timeout", TAGS_ERRORS, sc_g).uncontrolled(1, 1));
    // ... and init faults under the same configuration.
    let mut sc_gi = vec![];
    for (name, op) in [("panic", Op::Panic(PanicKind::Str)), ("norecipient", sendc(0, 1, 1))] {
        let a = NodeSpec::new("A", 2).out(vec![to(2)]);
        let s = NodeSpec::new("S", 2).parent(0).init(vec![op]).out(vec![to(2)]);
        let g = NodeSpec::new("G", 1).placement(Placement::Dropped);
        let mut sp = BenchSpec::new(vec![a, s, g]);
        sp.timeout_ms = 20_000;
        sc_gi.push(scn(format!("init_{}", name), &Arc::new(sp), vec![]));
    }
    fams.push(Family::new("init_faults_st_with_timeout", TAGS_ERRORS, sc_gi).uncontrolled(1, 1));
    let sc_t2 = c11_scenarios(tier, &tspec, true);
    let sc_t2: Vec<Scenario> = sc_t2.into_iter().take(n_t).collect();
    fams.push(Family::new("timeouts_mt", TAGS_ERRORS, sc_t2).uncontrolled(2, 1));
    // The same with the timeout configured on the running simulation (`Simulation::set_timeout`).
    let mut late = (*c11_spec(200)).clone();
    late.timeout_after_init = true;
    let late = Arc::new(late);
    let sc_l: Vec<Scenario> = c11_scenarios(tier, &late, true).into_iter().take(n_t).collect();
    fams.push(Family::new("timeouts_set_after_init_st", TAGS_ERRORS, sc_l).uncontrolled(1, 1));
    let sc_l2: Vec<Scenario> = c11_scenarios(tier, &late, true).into_iter().take(n_t).collect();
    fams.push(Family::new("timeouts_set_after_init_mt", TAGS_ERRORS, sc_l2).uncontrolled(2, 1));
    // After a fatal error every further call returns (Terminated): a call that hangs is a violation.
    for f in fams.iter_mut() {
        f.hang_is_violation = true;
    }
    fams
}

// ---------------------------------------------------------------------------
// C14
// ---------------------------------------------------------------------------

pub fn c14(tier: &str) -> Vec<Family> {
    let cap = if tier == "quick" { 20_000 } else { 1_000_000 };
    let modes = [Mode::Plain, Mode::Map(1), Mode::Filter(0), Mode::Filter(1)];
    let maxn = if tier == "quick" { 3 } else { 4 };
    let mut sc = vec![];
    let mut combos: Vec<Vec<Mode>> = vec![vec![]];
    let mut layer: Vec<Vec<Mode>> = vec![vec![]];
    for _ in 0..maxn {
        let mut next = vec![];
        for c in &layer {
            for m in modes {
                let mut c2 = c.clone();
                c2.push(m);
                next.push(c2);
            }
        }
        combos.extend(next.iter().cloned());
        layer = next;
    }
    for (ci, combo) in combos.iter().enumerate() {
        // Requester A (node 0), repliers R1..Rn (each also pokes a sink so
        // that completions interleave).
        let conns: Vec<Conn> = combo.iter().enumerate().map(|(i, m)| tom(i + 1, *m)).collect();
        let a = NodeSpec::new("A", 1).script(1, vec![query(0, 4), query(0, 4)]).req(vec![conns.clone()].concat());
        let mut nodes = vec![a];
        for i in 0..combo.len() {
            nodes.push(
                NodeSpec::new(&format!("R{}", i + 1), 1)
                    .script(4, vec![sendp(0, 9, i as i64)])
                    .out(vec![Conn::Buf { sink: 0, mode: Mode::Plain }]),
            );
        }
        let mut spec = BenchSpec::new(nodes);
        spec.bufs = vec![64];
        spec.qsrcs = vec![conns];
        let spec = Arc::new(spec);
        for v in [0i64, 1] {
            sc.push(scn(format!("requestor/combo{}/v{}", ci, v), &spec, vec![pe(0, 1, v)]));
            sc.push(scn(format!("qsource/combo{}/v{}", ci, v), &spec, vec![Cmd::ProcQSrc { src: 0, tag: 4, val: v }]));
        }
    }
    // A reply iterator that is not fully drained must not leak into the next query.
    for (ci, combo) in combos.iter().enumerate().filter(|(_, c)| c.len() >= 2) {
        let conns: Vec<Conn> = combo.iter().enumerate().map(|(i, m)| tom(i + 1, *m)).collect();
        let a = NodeSpec::new("A", 1)
            .script(1, vec![Op::QueryTake { port: 0, tag: 4, val: Val::In, take: 1 }, Op::Query { port: 0, tag: 4, val: Val::InPlus(1) }])
            .script(2, vec![Op::QueryTake { port: 0, tag: 4, val: Val::In, take: 0 }, Op::Query { port: 0, tag: 4, val: Val::InPlus(1) }, query(0, 4)])
            .req(conns);
        let mut nodes = vec![a];
        for i in 0..combo.len() {
            nodes.push(NodeSpec::new(&format!("R{}", i + 1), 1));
        }
        let spec = Arc::new(BenchSpec::new(nodes));
        for v in [0i64, 1] {
            sc.push(scn(format!("partial_drain/combo{}/v{}/take1", ci, v), &spec, vec![pe(0, 1, v)]));
            sc.push(scn(format!("partial_drain/combo{}/v{}/take0", ci, v), &spec, vec![pe(0, 2, v)]));
        }
    }
    // Successive queries whose number of accepting repliers shrinks and then
    // grows beyond the earlier maximum (the per-replier sub-task set is re-sized).
    {
        let conns = vec![to(1), to(2), tom(3, Mode::FilterGe(1)), tom(4, Mode::FilterGe(2)), tom(5, Mode::FilterGe(3))];
        for seq in [[1i64, 0, 2], [2, 0, 3], [1, 0, 3], [0, 3, 0], [3, 0, 3]] {
            let ops: Vec<Op> = seq.iter().map(|v| Op::Query { port: 0, tag: 4, val: Val::C(*v) }).collect();
            let a = NodeSpec::new("A", 1).script(1, ops).req(conns.clone());
            let mut nodes = vec![a];
            for i in 0..5 {
                nodes.push(NodeSpec::new(&format!("R{}", i + 1), 1));
            }
            let mut spec = BenchSpec::new(nodes);
            spec.qsrcs = vec![conns.clone()];
            let spec = Arc::new(spec);
            sc.push(scn(format!("resize/{:?}", seq), &spec, vec![pe(0, 1, 0)]));
            let cmds: Vec<Cmd> = seq.iter().map(|v| Cmd::ProcQSrc { src: 0, tag: 4, val: *v }).collect();
            sc.push(scn(format!("resize_qsource/{:?}", seq), &spec, cmds));
        }
    }
    // A query source / requestor with more connections to ONE replier model
    // than its mailbox holds (the sub-sends have to wait for space in turn).
    for c in [1usize, 2] {
        let conns: Vec<Conn> = (0..c + 3).map(|k| tom(1, Mode::Map(k as i64))).collect();
        let a = NodeSpec::new("A", 1).script(1, vec![query(0, 4)]).req(conns.clone());
        let r = NodeSpec::new("R", c);
        let mut spec = BenchSpec::new(vec![a, r]);
        spec.qsrcs = vec![conns.clone()];
        spec.srcs = vec![conns];
        let spec = Arc::new(spec);
        sc.push(scn(format!("one_replier_many_connections/cap{}/requestor", c), &spec, vec![pe(0, 1, 0)]));
        sc.push(scn(format!("one_replier_many_connections/cap{}/qsource", c), &spec, vec![Cmd::ProcQSrc { src: 0, tag: 4, val: 0 }]));
        sc.push(scn(format!("one_replier_many_connections/cap{}/esource", c), &spec, vec![Cmd::ProcSrc { src: 0, tag: 4, val: 0 }]));
    }
    // Single-replier requestors (plain, mapped, filtered), also towards a
    // replier that is busy or whose mailbox is full.
    for c in [1usize, 2] {
        let a = NodeSpec::new("A", c)
            .script(1, vec![
                Op::UniQuery { port: 0, tag: 4, val: Val::In },
                Op::UniQuery { port: 1, tag: 4, val: Val::In },
                Op::UniQuery { port: 2, tag: 4, val: Val::In },
                Op::UniQuery { port: 3, tag: 4, val: Val::In },
            ])
            .uni(to(1))
            .uni(tom(2, Mode::Map(5)))
            .uni(tom(1, Mode::Filter(0)))
            .uni(tom(2, Mode::Filter(1)));
        let b = NodeSpec::new("B", c).script(9, vec![sendp(0, 8, 1)]).out(vec![to(2)]);
        let cc = NodeSpec::new("C", c);
        let spec = Arc::new(BenchSpec::new(vec![a, b, cc]));
        for v in [0i64, 1] {
            sc.push(scn(format!("uni_requestor/cap{}/v{}", c, v), &spec, vec![pe(1, 9, 0), pe(0, 1, v)]));
            sc.push(scn(
                format!("uni_requestor/cap{}/v{}/timed", c, v),
                &spec,
                vec![
                    Cmd::Sched { node: 1, kind: SKind::Once, when: When::Rel(1), tag: 9, val: 0, slot: 0 },
                    Cmd::Sched { node: 0, kind: SKind::Once, when: When::Rel(1), tag: 1, val: v, slot: 0 },
                    Cmd::Step,
                ],
            ));
        }
    }
    let mut fams = vec![Family::new(
        "query_replies",
        &["replies", "replies_early", "delivery_dup", "delivery_invented", "delivery_lost", "delivery_value", "half_handler", "pending_send"],
        sc,
    )
    .cap(cap)
    .hang_violation()];
    // Port clones share one connection list.
    let x = NodeSpec::new("X", 2)
        .script(1, vec![Op::Connect { port: 0, target: 3 }, send(1, 2)])
        .script(3, vec![sendp(0, 5, 7)])
        .out(vec![to(2)])
        .out(vec![to(1)]);
    let mut y = NodeSpec::new("Y", 2).script(2, vec![sendp(0, 5, 100)]).script(4, vec![Op::Connect { port: 0, target: 3 }, send(1, 3)]).out(vec![]).out(vec![to(0)]);
    // Y's port 0 is replaced by a clone of X's port 0 below: share_out appends
    // the clone as the *last* port, so Y uses port index 2.
    y.share_out = Some((0, 0));
    let y = y.script(2, vec![sendp(2, 5, 100)]).script(4, vec![Op::Connect { port: 2, target: 3 }, send(1, 3)]);
    let b = NodeSpec::new("B", 2);
    let c = NodeSpec::new("C", 2);
    let spec = Arc::new(BenchSpec::new(vec![x, y, b, c]));
    let sc2 = vec![
        scn("clone/connect_on_original_send_on_clone", &spec, vec![pe(0, 1, 1)]),
        scn("clone/connect_on_clone_send_on_original", &spec, vec![pe(1, 4, 1)]),
        scn("clone/both", &spec, vec![pe(0, 1, 1), pe(1, 4, 2), pe(1, 2, 3)]),
        scn("clone/send_before_connect", &spec, vec![pe(1, 2, 3), pe(0, 1, 1), pe(1, 2, 4)]),
    ];
    fams.push(Family::new("port_clones", &["delivery_lost", "delivery_invented", "delivery_dup"], sc2).cap(cap));
    // Queries with many repliers (every third one filtered on parity, every fifth mapped), from
    // a requestor and from a query source, on the single-threaded executor (default schedule)
    // and on the real multi-threaded executor: the replies in connection order, complete.
    let wide = |n: usize| -> Arc<BenchSpec> {
        let conns: Vec<Conn> = (1..=n)
            .map(|i| if i % 3 == 0 { tom(i, Mode::Filter((i % 2) as i64)) } else if i % 5 == 0 { tom(i, Mode::Map(i as i64)) } else { to(i) })
            .collect();
        let a = NodeSpec::new("A", 2).script(1, vec![query(0, 4), query(0, 4)]).req(conns.clone());
        let mut nodes = vec![a];
        for i in 0..n {
            nodes.push(NodeSpec::new(&format!("r{}", i), 1));
        }
        let mut spec = BenchSpec::new(nodes);
        spec.qsrcs = vec![conns];
        Arc::new(spec)
    };
    let sc_w: Vec<Scenario> = [33usize, 65, 130, 300]
        .iter()
        .flat_map(|n| {
            let sp = wide(*n);
            vec![
                scn(format!("wide/requestor/{}", n), &sp, vec![pe(0, 1, 0), pe(0, 1, 1)]),
                scn(format!("wide/qsource/{}", n), &sp, vec![Cmd::ProcQSrc { src: 0, tag: 4, val: 0 }, Cmd::ProcQSrc { src: 0, tag: 4, val: 1 }]),
            ]
        })
        .collect();
    let tags_w: &'static [&'static str] = &["replies", "replies_early", "delivery_dup", "delivery_invented", "delivery_lost", "delivery_value", "report_exact", "error_class"];
    fams.push(Family::new("wide_queries_st", tags_w, sc_w.clone()).uncontrolled(1, 1).hang_violation());
    fams.push(Family::new("wide_queries_mt2", tags_w, sc_w.clone()).uncontrolled(2, 2).hang_violation());
    fams.push(Family::new("wide_queries_mt4", tags_w, sc_w).uncontrolled(4, 2).hang_violation());
    fams
}

// ---------------------------------------------------------------------------
// C16
// ---------------------------------------------------------------------------

pub fn c16(tier: &str) -> Vec<Family> {
    let cap = if tier == "quick" { 20_000 } else { 1_000_000 };
    let mut sc = vec![];
    // Hierarchies given as parent vectors; every model's init sends an event
    // to the next model (cyclically) and, for odd indices, queries the
    // previous one.
    let shapes: Vec<(&str, Vec<Option<usize>>)> = vec![
        ("flat2", vec![None, None]),
        ("flat3", vec![None, None, None]),
        ("depth1", vec![None, Some(0)]),
        ("depth1x2", vec![None, Some(0), Some(0)]),
        ("depth2", vec![None, Some(0), Some(1)]),
        ("depth3", vec![None, Some(0), Some(1), Some(2)]),
        ("two_trees", vec![None, Some(0), None, Some(2)]),
    ];
    for (name, parents) in shapes {
        for c in [1usize, 2] {
            for variant in 0..3 {
                let n = parents.len();
                let mut nodes = vec![];
                for i in 0..n {
                    let next = (i + 1) % n;
                    let prev = (i + n - 1) % n;
                    let mut init = vec![sendc(0, 1, i as i64), sendc(0, 1, 10 + i as i64)];
                    if variant == 1 && i % 2 == 1 {
                        init.push(Op::Query { port: 0, tag: 2, val: Val::C(20 + i as i64) });
                    }
                    if variant == 2 {
                        init = vec![sendc(1, 1, 30 + i as i64), sendc(0, 1, 40 + i as i64)];
                    }
                    let mut ns = NodeSpec::new(&format!("m{}", i), c)
                        .init(init)
                        .script(1, vec![Op::ReadTime])
                        .out(vec![to(next)])
                        .out(vec![to(prev)])
                        .req(vec![to(prev)]);
                    ns.parent = parents[i];
                    nodes.push(ns);
                }
                let spec = Arc::new(BenchSpec::new(nodes));
                sc.push(scn(format!("{}/cap{}/v{}", name, c, variant), &spec, vec![pe(0, 1, 99)]));
            }
        }
    }
    // Names in error reports: a sub-model panics / has no recipient / stalls.
    let p = NodeSpec::new("top", 2).script(1, vec![send(0, 1)]).out(vec![to(1)]);
    let ch = NodeSpec::new("mid", 2).parent(0).script(1, vec![send(0, 1)]).out(vec![to(2)]);
    let gc = NodeSpec::new("leaf", 2)
        .parent(1)
        .script(1, vec![Op::Panic(PanicKind::Str)])
        .script(2, vec![sendc(0, 1, 1)])
        .script(3, vec![query(0, 1)])
        .out(vec![to(3)])
        .req(vec![to(2)]);
    let g = NodeSpec::new("gone", 1).placement(Placement::Dropped);
    let spec = Arc::new(BenchSpec::new(vec![p, ch, gc, g]));
    // Errors raised by models that own sub-models.
    let p2 = NodeSpec::new("top", 2)
        .script(1, vec![Op::Panic(PanicKind::String)])
        .script(2, vec![sendc(0, 1, 1)])
        .out(vec![to(3)]);
    let ch2 = NodeSpec::new("mid", 2)
        .parent(0)
        .script(1, vec![Op::Panic(PanicKind::Custom)])
        .script(2, vec![sendc(0, 1, 1)])
        .out(vec![to(3)]);
    let gc2 = NodeSpec::new("leaf", 2).parent(1);
    let g2 = NodeSpec::new("gone", 1).placement(Placement::Dropped);
    let sib = NodeSpec::new("sibling", 1).parent(0);
    let spec2 = Arc::new(BenchSpec::new(vec![p2, ch2, gc2, g2, sib]));
    sc.push(scn("names/panic_top", &spec2, vec![pe(0, 1, 1)]));
    sc.push(scn("names/panic_mid", &spec2, vec![pe(1, 1, 1)]));
    sc.push(scn("names/norecipient_top", &spec2, vec![pe(0, 2, 1)]));
    sc.push(scn("names/norecipient_mid", &spec2, vec![pe(1, 2, 1)]));
    // Two models whose init floods a third one (more than its capacity each).
    for c in [1usize, 2, 3] {
        let flood: Vec<Op> = (0..c + 2).map(|k| sendc(0, 1, k as i64)).collect();
        for order in 0..2 {
            let sink = NodeSpec::new("sink", c).script(1, vec![Op::ReadTime]);
            let f0 = NodeSpec::new("flooder0", 1).init(flood.clone()).out(vec![to(if order == 0 { 0 } else { 2 })]);
            let f1 = NodeSpec::new("flooder1", 1).init(flood.clone()).out(vec![to(if order == 0 { 0 } else { 2 })]);
            let nodes = if order == 0 { vec![sink, f0, f1] } else { vec![f0, f1, sink] };
            sc.push(scn(format!("init_fan_in/cap{}/order{}", c, order), &Arc::new(BenchSpec::new(nodes)), vec![]));
        }
    }
    // A model whose init overflows a neighbour's mailbox while that neighbour's handler queries it
    // back: the sender is resumed as soon as the recipient takes a message, so this completes.
    for c in [1usize, 2] {
        for order in 0..2 {
            let flood: Vec<Op> = (0..c + 1).map(|k| sendc(0, 1, k as i64)).collect();
            let x = NodeSpec::new("x", 2).init(flood).out(vec![to(if order == 0 { 1 } else { 0 })]);
            let y = NodeSpec::new("y", c).script(1, vec![query(0, 9)]).req(vec![to(if order == 0 { 0 } else { 1 })]);
            let nodes = if order == 0 { vec![x, y] } else { vec![y, x] };
            sc.push(scn(format!("init_overflow_query_back/cap{}/order{}", c, order), &Arc::new(BenchSpec::new(nodes)), vec![]));
        }
    }
    {
        // A sub-model registered under an empty name: "<parent>.<unknown>" in its context and in the reports.
        let p = NodeSpec::new("top", 2).script(1, vec![send(0, 1)]).script(2, vec![send(0, 3)]).out(vec![to(1)]);
        let ch = NodeSpec::new("", 2).parent(0).script(1, vec![Op::Panic(PanicKind::Str)]).script(3, vec![query(0, 4)]).req(vec![to(1)]);
        let gc = NodeSpec::new("", 1).parent(1);
        let spu = Arc::new(BenchSpec::new(vec![p, ch, gc]));
        sc.push(scn("names/unnamed_child/panic", &spu, vec![pe(0, 1, 1)]));
        sc.push(scn("names/unnamed_child/deadlock", &spu, vec![pe(0, 2, 1)]));
    }
    sc.push(scn("names/panic", &spec, vec![pe(0, 1, 1)]));
    sc.push(scn("names/norecipient", &spec, vec![pe(2, 2, 1)]));
    sc.push(scn("names/deadlock", &spec, vec![pe(2, 3, 1)]));
    let tags_h: &'static [&'static str] = &[
        "init_twice", "init_late", "init_foreign", "init_missing", "before_init", "name", "delivery_lost", "delivery_dup",
        "error_class", "report_exact", "half_handler", "pending_send",
    ];
    // Many models initialised on the real multi-threaded executor; the hub's init wakes all
    // of them at once (one worker schedules far more tasks than its local queue holds).
    let mk_big = |busy: usize| -> Vec<Scenario> { [700usize, 1500].iter().map(|n| scn(format!("init_fan_out/{}units", n), &big_fan(*n, busy, true), vec![])).collect() };
    // The naming scenarios (errors raised by leaf, middle and top models, from handlers and from
    // init) on the single-threaded executor with a step timeout configured (helper thread).
    let with_timeout: Vec<Scenario> = sc
        .iter()
        .filter(|s| s.label.starts_with("names/") || s.label.contains("depth2") || s.label.contains("depth1/"))
        .map(|s| {
            let mut sp = (*s.spec).clone();
            sp.timeout_ms = 20_000;
            Scenario { spec: Arc::new(sp), cmds: s.cmds.clone(), label: format!("st_timeout/{}", s.label), prelude: None }
        })
        .collect();
    // An init fault in a sub-model under the same configuration.
    let mut with_timeout = with_timeout;
    for (name, op) in [("panic", Op::Panic(PanicKind::Str)), ("norecipient", sendc(0, 1, 1))] {
        let a = NodeSpec::new("top", 2).out(vec![to(3)]);
        let m = NodeSpec::new("mid", 2).parent(0).out(vec![to(3)]);
        let l = NodeSpec::new("leaf", 2).parent(1).init(vec![op]).out(vec![to(3)]);
        let g = NodeSpec::new("gone", 1).placement(Placement::Dropped);
        let mut sp = BenchSpec::new(vec![a, m, l, g]);
        sp.timeout_ms = 20_000;
        with_timeout.push(scn(format!("st_timeout/init_{}", name), &Arc::new(sp), vec![]));
    }
    vec![Family::new("names_st_with_timeout", tags_h, with_timeout).uncontrolled(1, 1),
        Family::new("init_fan_out_mt2", tags_h, mk_big(1)).uncontrolled(2, 2).hang_violation(), Family::new("init_fan_out_mt4", tags_h, mk_big(3)).uncontrolled(4, 2).hang_violation(), Family::new(
        "hierarchies",
        &[
            "init_twice",
            "init_late",
            "init_foreign",
            "init_missing",
            "before_init",
            "name",
            "delivery_lost",
            "delivery_dup",
            "error_class",
            "report_exact",
            "half_handler",
            "pending_send",
        ],
        sc,
    )
    .cap(cap)]
}

/// A hub whose output 0 is connected to `n` idle unit models (nodes 1..=n) and whose output 1
/// is connected to `busy` models (nodes n+1..) whose handler blocks its worker thread for a while,
/// so that the worker running the hub is not relieved by work stealing. With `from_init` the hub
/// occupies the busy models and then broadcasts from its `init`; otherwise the bench is meant to be
/// driven by scheduled events (tag 2 to units, tag 3 to busy models).
pub fn big_fan(n: usize, busy: usize, from_init: bool) -> Arc<BenchSpec> {
    let conns: Vec<Conn> = (1..=n).map(to).collect();
    let busy_conns: Vec<Conn> = (n + 1..=n + busy).map(to).collect();
    let mut hub = NodeSpec::new("hub", 4).out(conns).out(busy_conns).script(1, vec![sendp(1, 3, 0), sendp(0, 2, 7)]);
    if from_init {
        hub = hub.init(vec![sendc(1, 3, 0), sendc(0, 2, 1)]);
    }
    let mut nodes = vec![hub];
    for i in 0..n {
        nodes.push(NodeSpec::new(&format!("u{}", i), 2));
    }
    for i in 0..busy {
        nodes.push(NodeSpec::new(&format!("busy{}", i), 2).script(3, vec![Op::Block(120)]));
    }
    Arc::new(BenchSpec::new(nodes))
}

// ---------------------------------------------------------------------------
// C17 (model-level part)
// ---------------------------------------------------------------------------

pub fn c17(tier: &str) -> Vec<Family> {
    let cap = if tier == "quick" { 20_000 } else { 1_000_000 };
    let mut sc = vec![];
    for k in 1..=5usize {
        let ops: Vec<Op> = (0..k).map(|j| sendp(0, 2, j as i64)).collect();
        let a = NodeSpec::new("A", 2).script(1, ops).out(vec![
            Conn::Buf { sink: 0, mode: Mode::Plain },
            to(1),
            Conn::Buf { sink: 1, mode: Mode::Map(50) },
            Conn::Slot { sink: 0, mode: Mode::Plain },
        ]);
        let b = NodeSpec::new("B", 1).script(2, vec![sendp(0, 3, 1000)]).out(vec![Conn::Buf { sink: 0, mode: Mode::Plain }]);
        let mut spec = BenchSpec::new(vec![a, b]);
        spec.bufs = vec![64, 64];
        spec.slots = 1;
        let spec = Arc::new(spec);
        sc.push(scn(format!("emit{}", k), &spec, vec![pe(0, 1, 0)]));
        sc.push(scn(format!("emit{}x2", k), &spec, vec![pe(0, 1, 0), pe(0, 1, 100)]));
    }
    // Overflowing buffers (one writer), and two models writing to one small buffer.
    for c in [1usize, 2, 3] {
        let ops: Vec<Op> = (0..c + 3).map(|j| sendp(0, 2, j as i64)).collect();
        let a = NodeSpec::new("A", 2).script(1, ops).out(vec![Conn::Buf { sink: 0, mode: Mode::Plain }]);
        let mut spec = BenchSpec::new(vec![a]);
        spec.bufs = vec![c];
        sc.push(scn(format!("overflow/cap{}", c), &Arc::new(spec), vec![pe(0, 1, 0), pe(0, 1, 100)]));
        let mk = |n: &str, base: i64| {
            NodeSpec::new(n, 2)
                .script(1, vec![sendp(0, 2, base), sendp(0, 2, base + 1), sendp(0, 2, base + 2)])
                .out(vec![Conn::Buf { sink: 0, mode: Mode::Plain }])
        };
        let mut spec = BenchSpec::new(vec![mk("P", 0), mk("Q", 100)]);
        spec.bufs = vec![c];
        sc.push(scn(
            format!("two_writers/cap{}", c),
            &Arc::new(spec),
            vec![
                Cmd::Sched { node: 0, kind: SKind::Once, when: When::Rel(1), tag: 1, val: 0, slot: 0 },
                Cmd::Sched { node: 1, kind: SKind::Once, when: When::Rel(1), tag: 1, val: 0, slot: 0 },
                Cmd::Step,
            ],
        ));
    }
    let mut out = vec![Family::new("model_to_sink", &["sink_order", "sink_content", "sink_capacity"], sc).cap(cap)];
    // Sinks connected late, through a clone of the port, and in every order with other connections.
    for mut f in c03(tier) {
        if f.name == "late_connections" || f.name == "connection_orders" {
            f.tags = &["sink_order", "sink_content", "sink_capacity"];
            out.push(f);
        }
    }
    out
}

// ---------------------------------------------------------------------------
// C18
// ---------------------------------------------------------------------------

pub const TAGS_SYNC: &[&str] = &[
    "sync_init",
    "sync_monotone",
    "sync_spurious",
    "sync_before_done",
    "sync_extra",
    "sync_missing",
    "step_time",
    "oos_code_ran",
    "code_before_sync",
    "error_class",
    "term_result",
];

pub const TAGS_SYNC_BIG: &[&str] = &[
    "sync_init", "sync_monotone", "sync_spurious", "sync_before_done", "sync_extra", "sync_missing", "step_time", "oos_code_ran",
    "handler_time", "time_read", "init_missing", "report_exact", "error_class",
];

fn c18_big() -> Vec<Scenario> {
    // 300 and 700 models, each reading the time in init and arming an event on itself.
    [300usize, 700]
        .iter()
        .map(|n| {
            let nodes: Vec<NodeSpec> = (0..*n)
                .map(|i| NodeSpec::new(&format!("m{}", i), 2).init(vec![Op::ReadTime, sched_self(SKind::Once, When::Rel(1), 2, 0)]).script(2, vec![Op::ReadTime]))
                .collect();
            scn(format!("many_models/{}", n), &Arc::new(BenchSpec::new(nodes)), vec![Cmd::Step, Cmd::Step])
        })
        .collect()
}

pub const TAGS_SYNC_AND_TIME: &[&str] = &[
    "sync_init", "sync_monotone", "sync_spurious", "sync_before_done", "sync_extra", "sync_missing", "step_time",
    "sched_validation", "pending_not_future", "sched_missed", "sched_wrong_time", "time_backwards", "cmd_time",
];

pub fn c18(tier: &str) -> Vec<Family> {
    let a = NodeSpec::new("A", 2)
        .script(1, vec![Op::ReadTime])
        .script(2, vec![sched_self(SKind::Once, When::Rel(1), 1, 0), send(0, 1)])
        .out(vec![to(1)]);
    let b = NodeSpec::new("B", 1).script(1, vec![Op::ReadTime]);
    let mut base = BenchSpec::new(vec![a, b]);
    // An event source whose connections evaluate user closures (map / filter_map).
    base.srcs = vec![vec![tom(0, Mode::Map(500)), tom(1, Mode::Filter(0))]];
    use Cmd::*;
    let alpha: Vec<Cmd> = vec![
        SchedSrc { src: 0, kind: SKind::Periodic(1), when: When::Rel(1), tag: 1, val: 6, slot: 0 },
        SchedSrc { src: 0, kind: SKind::Once, when: When::Rel(2), tag: 1, val: 8, slot: 0 },
        Step,
        StepUntil(When::Rel(1)),
        StepUntil(When::Rel(2)),
        StepUntil(When::Rel(0)),
        Sched { node: 0, kind: SKind::Once, when: When::Rel(1), tag: 1, val: 1, slot: 0 },
        Sched { node: 0, kind: SKind::Once, when: When::Rel(2), tag: 2, val: 2, slot: 0 },
        Sched { node: 1, kind: SKind::Periodic(1), when: When::Rel(2), tag: 1, val: 3, slot: 0 },
        ProcEvent { node: 0, tag: 2, val: 4 },
    ];
    let depth = if tier == "quick" { 4 } else { 5 };
    let sequences = seqs(&alpha, depth);
    // Clock scripts: position of a lag among the first calls, tolerance or not.
    let mut clocks: Vec<(String, ClockSpec, Option<u64>)> = vec![("sync".into(), ClockSpec { answers: vec![], schedules: vec![] }, None)];
    for pos in 0..4usize {
        for (lag, tol, name) in [
            (5_000u64, Some(1_000u64), "above"),
            (1_000, Some(1_000), "equal"),
            (5_000, None, "no_tolerance"),
            (500, Some(1_000), "below"),
            // The largest lag a clock can report (Duration::MAX), with the largest tolerance and without any.
            (u64::MAX, None, "max_no_tolerance"),
            (u64::MAX, Some(u64::MAX - 1), "max_above"),
        ] {
            let mut answers = vec![None; pos];
            answers.push(Some(lag));
            clocks.push((format!("lag_{}@{}", name, pos), ClockSpec { answers, schedules: vec![] }, tol));
        }
    }
    let mut sc = vec![];
    // With a tolerance: both orders of set_clock / set_clock_tolerance.
    let mut clocks2: Vec<(String, ClockSpec, Option<u64>, bool)> = vec![];
    for (cname, clock, tol) in &clocks {
        clocks2.push((cname.clone(), clock.clone(), *tol, false));
        if tol.is_some() {
            clocks2.push((format!("{}+tolerance_first", cname), clock.clone(), *tol, true));
        }
    }
    for (cname, clock, tol, tol_first) in &clocks2 {
        let mut sp = base.clone();
        sp.clock = clock.clone();
        sp.tolerance_ns = *tol;
        sp.tolerance_first = *tol_first;
        let sp = Arc::new(sp);
        // The full sequence set for the nominal clock, a thinned one for the others.
        for (i, cmds) in sequences.iter().enumerate() {
            if cname != "sync" && tier == "quick" && cmds.len() > 3 {
                continue;
            }
            sc.push(scn(format!("{}/seq#{}", cname, i), &sp, cmds.clone()));
        }
    }
    // A clock that schedules an event through a Scheduler handle while it is
    // being synchronised (k-th call), for a deadline before, at and after the
    // time it is synchronising on.
    let mut sc2 = vec![];
    for k in 1..=3usize {
        for at in 1..=4i64 {
            let mut sp = base.clone();
            sp.clock = ClockSpec { answers: vec![], schedules: vec![(k, at, 1)] };
            let sp = Arc::new(sp);
            for (i, cmds) in sequences.iter().enumerate().filter(|(_, c)| c.len() <= 3) {
                sc2.push(scn(format!("scheduling_clock/call{}/at{}/seq#{}", k, at, i), &sp, cmds.clone()));
            }
        }
    }
    let thin: Vec<Scenario> = sc.iter().enumerate().filter(|(i, _)| i % 5 == 0).map(|(_, s)| s.clone()).collect();
    vec![
        Family::new("clock_gating", TAGS_SYNC, sc).cap(5_000),
        Family::new("scheduling_clock", TAGS_SYNC_AND_TIME, sc2).cap(5_000),
        Family::new("clock_gating@-1s", TAGS_SYNC, thin).cap(5_000).epoch(-1),
        // Many models on the real multi-threaded executor: no init code before the start-time
        // synchronisation, no model code of a time step before its synchronisation.
        {
            // After a step timeout (the handler is still running on a worker) no further step is taken.
            let mut f = family_named(c11(tier), "timeouts_mt");
            f.name = "after_timeout_mt";
            f.tags = &["term_result", "term_activity", "term_time", "sync_before_done", "sync_spurious"];
            f
        },
        Family::new("many_models_mt2", TAGS_SYNC_BIG, c18_big()).uncontrolled(2, 2).hang_violation(),
        Family::new("many_models_mt4", TAGS_SYNC_BIG, c18_big()).uncontrolled(4, 2).hang_violation(),
    ]
}

// ---------------------------------------------------------------------------
// C19
// ---------------------------------------------------------------------------

pub const TAGS_DROP: &[&str] = &["leak", "double_drop", "model_drop", "code_after_drop", "api_panic"];

pub fn c19(tier: &str) -> Vec<Family> {
    let cap = if tier == "quick" { 10_000 } else { 500_000 };
    let mut sc = vec![];
    // For every bench: a driver sequence, with DropSim inserted at every position.
    let mut benches: Vec<(&str, Arc<BenchSpec>, Vec<Cmd>)> = vec![];
    benches.push(("fan", Arc::new(fan()), vec![pe(0, 1, 1), pe(0, 1, 2)]));
    benches.push(("triangle", Arc::new(triangle()), vec![pe(0, 1, 1)]));
    // Blocked sender + pending query (deadlock), then drop.
    let a = NodeSpec::new("A", 1)
        .script(1, vec![sendp(0, 2, 1), sendp(0, 2, 2), sendp(0, 2, 3)])
        .script(3, vec![query(0, 4)])
        .out(vec![to(0)])
        .req(vec![to(0)]);
    benches.push(("self_flood", Arc::new(BenchSpec::new(vec![a.clone()])), vec![pe(0, 1, 0)]));
    benches.push(("query_loop", Arc::new(BenchSpec::new(vec![a])), vec![pe(0, 3, 0)]));
    // Scheduled actions of every kind left in the queue.
    let a = NodeSpec::new("A", 2).script(1, vec![sched_self(SKind::KeyedPeriodic(1), When::Rel(1), 2, 3), sched_self(SKind::Once, When::Rel(5), 2, 3)]);
    let b = NodeSpec::new("B", 1).parent(0);
    let mut spec = BenchSpec::new(vec![a, b]);
    spec.srcs = vec![vec![to(0), to(1)]];
    benches.push((
        "pending_actions",
        Arc::new(spec),
        vec![
            Cmd::Sched { node: 0, kind: SKind::Periodic(2), when: When::Rel(1), tag: 1, val: 1, slot: 0 },
            Cmd::Sched { node: 1, kind: SKind::Keyed, when: When::Rel(3), tag: 2, val: 2, slot: 0 },
            Cmd::SchedSrc { src: 0, kind: SKind::KeyedPeriodic(2), when: When::Rel(2), tag: 2, val: 3, slot: 1 },
            Cmd::Step,
            Cmd::SchedSrc { src: 0, kind: SKind::Once, when: When::Rel(9), tag: 2, val: 4, slot: 1 },
            Cmd::StepUntil(When::Rel(2)),
        ],
    ));
    // After a panic, with an orphan holding messages.
    let a = NodeSpec::new("A", 2)
        .script(1, vec![sendc(0, 2, 1), sendc(1, 2, 2), Op::Panic(PanicKind::String)])
        .out(vec![to(1)])
        .out(vec![to(2)]);
    let o = NodeSpec::new("O", 2).placement(Placement::Orphan);
    let b = NodeSpec::new("B", 1).script(2, vec![sendp(0, 3, 1)]).out(vec![to(0)]);
    benches.push(("after_panic", Arc::new(BenchSpec::new(vec![a, o, b])), vec![pe(0, 1, 0), Cmd::Step]));
    // A multi-recipient broadcast suspended on full mailboxes of stalled models.
    let a = NodeSpec::new("A", 2)
        .script(1, vec![sendp(0, 2, 1), sendp(0, 2, 2), sendp(0, 2, 3)])
        .out(vec![to(1), to(2)]);
    let b = NodeSpec::new("B", 1).script(2, vec![query(0, 9)]).req(vec![to(0)]);
    let c = NodeSpec::new("C", 1).script(2, vec![query(0, 9)]).req(vec![to(0)]);
    benches.push(("bcast_stalled", Arc::new(BenchSpec::new(vec![a, b, c])), vec![pe(0, 1, 0), Cmd::Step]));
    // A requestor broadcast with pending replies.
    let a = NodeSpec::new("A", 2).script(1, vec![query(0, 2)]).req(vec![to(1), to(2)]);
    let b = NodeSpec::new("B", 1).script(2, vec![query(0, 3)]).req(vec![to(0)]);
    let c = NodeSpec::new("C", 1);
    benches.push(("query_bcast_stalled", Arc::new(BenchSpec::new(vec![a, b, c])), vec![pe(0, 1, 0)]));
    // Replies that are produced but never read: a query action whose receiver is dropped or
    // kept unread, a query processed in a step that fails after the replier replied.
    let r1 = NodeSpec::new("R1", 2).script(4, vec![sendc(0, 2, 1)]).out(vec![to(2)]);
    let r2 = NodeSpec::new("R2", 2);
    let o = NodeSpec::new("O", 2).placement(Placement::Orphan);
    let mut spec = BenchSpec::new(vec![r1, r2, o]);
    spec.qsrcs = vec![vec![to(0), to(1)], vec![to(1)]];
    let spec = Arc::new(spec);
    benches.push((
        "unread_replies",
        spec.clone(),
        vec![
            Cmd::ProcQSrcDrop { src: 1, tag: 1, val: 1 },
            Cmd::SchedQSrc { src: 1, when: When::Rel(1), tag: 1, val: 2, keep: false },
            Cmd::SchedQSrc { src: 1, when: When::Rel(1), tag: 1, val: 3, keep: true },
            Cmd::SchedQSrc { src: 1, when: When::Rel(3), tag: 1, val: 4, keep: true },
            Cmd::Step,
            Cmd::ProcQSrc { src: 1, tag: 1, val: 5 },
        ],
    ));
    // The replier R1 loses a message (orphan mailbox) while serving the query: the call fails after the replies exist.
    benches.push(("replies_in_failed_step", spec.clone(), vec![Cmd::ProcQSrc { src: 0, tag: 4, val: 1 }]));
    benches.push(("query_in_failed_step", spec, vec![Cmd::ProcQuery { node: 0, tag: 4, val: 1 }]));
    // A handler that builds, runs and drops an inner simulation while other models are idle or busy.
    let a = NodeSpec::new("A", 2).script(1, vec![Op::Nested(2), sendp(0, 2, 1)]).script(3, vec![Op::Nested(1), Op::Nested(3)]).out(vec![to(1)]);
    let b = NodeSpec::new("B", 2).script(2, vec![Op::ReadTime]);
    let c = NodeSpec::new("C", 1);
    let d = NodeSpec::new("D", 1).parent(2);
    benches.push(("nested_simulation", Arc::new(BenchSpec::new(vec![a.clone(), b.clone(), c.clone(), d.clone()])), vec![pe(1, 2, 0), pe(0, 1, 0), pe(0, 3, 0)]));
    // ... and a handler that builds an inner bench and drops it without ever initialising it.
    let a2 = a.clone().script(5, vec![Op::NestedUninit(1)]).script(6, vec![Op::NestedUninit(3), sendp(0, 2, 2)]);
    benches.push(("nested_uninitialised", Arc::new(BenchSpec::new(vec![a2, b, c, d])), vec![pe(0, 5, 0), pe(1, 2, 0), pe(0, 6, 0)]));
    // A same-time, same-origin batch whose first action fails (source connected to a dropped
    // mailbox): the later actions of the batch and their arguments are released all the same.
    {
        let a = NodeSpec::new("A", 2);
        let g = NodeSpec::new("G", 1).placement(Placement::Dropped);
        let mut spec = BenchSpec::new(vec![a, g]);
        spec.srcs = vec![vec![to(1)], vec![to(0)]];
        benches.push((
            "failing_batch",
            Arc::new(spec),
            vec![
                Cmd::SchedSrc { src: 0, kind: SKind::Once, when: When::Rel(1), tag: 1, val: 1, slot: 0 },
                Cmd::SchedSrc { src: 1, kind: SKind::Once, when: When::Rel(1), tag: 1, val: 2, slot: 0 },
                Cmd::Sched { node: 0, kind: SKind::Periodic(1), when: When::Rel(1), tag: 1, val: 3, slot: 0 },
                Cmd::SchedSrc { src: 1, kind: SKind::KeyedPeriodic(2), when: When::Rel(1), tag: 1, val: 4, slot: 1 },
                Cmd::Step,
            ],
        ));
    }
    for (name, spec, cmds) in &benches {
        for pos in 0..=cmds.len() {
            let mut c2 = cmds.clone();
            c2.insert(pos, Cmd::DropSim);
            sc.push(scn(format!("{}/drop@{}", name, pos), spec, c2));
        }
        sc.push(scn(format!("{}/drop@end", name), spec, cmds.clone()));
    }
    vec![Family::new("drop_points", TAGS_DROP, sc).cap(cap).hang_violation()]
}

// ---------------------------------------------------------------------------
// Input-method flavours
// ---------------------------------------------------------------------------

fn sync_capable(ops: &[Op], with_cx: bool) -> bool {
    ops.iter().all(|o| match o {
        Op::Sched { .. } => with_cx,
        Op::Cancel { .. } | Op::CancelClone { .. } | Op::DropAuto { .. } | Op::ReadTime | Op::Yield => true,
        _ => false,
    })
}

/// The same bench with every node whose scripts allow it switched to input
/// methods of flavour `fl` (nodes that need to await keep the async form).
fn flavoured_spec(spec: &BenchSpec, fl: Flavour) -> Option<Arc<BenchSpec>> {
    let with_cx = fl == Flavour::SyncCx;
    if !with_cx && spec.nodes.iter().any(|n| !n.init.is_empty()) {
        // Context-free handlers read the time through the scheduler handle, which
        // does not exist yet while init() runs.
        return None;
    }
    let mut s = spec.clone();
    let mut changed = false;
    for n in s.nodes.iter_mut() {
        if n.scripts.values().all(|ops| sync_capable(ops, with_cx)) {
            n.flavour = fl;
            changed = true;
        }
    }
    if changed {
        Some(Arc::new(s))
    } else {
        None
    }
}

/// Adds, for each family named in `which`, a family `<name>+flavours` running its
/// scenarios with non-async / context-free input methods wherever the scripts
/// allow it (quick: one alternative flavour per scenario, rotating; thorough: all three).
pub fn with_flavours(mut fams: Vec<Family>, which: &[&str], tier: &str) -> Vec<Family> {
    let mut extra = vec![];
    for f in fams.iter() {
        if !which.contains(&f.name) {
            continue;
        }
        let mut sc = vec![];
        let mut cache: std::collections::HashMap<(usize, Flavour), Option<Arc<BenchSpec>>> = std::collections::HashMap::new();
        for (i, s) in f.scenarios.iter().enumerate() {
            let all = [Flavour::SyncCx, Flavour::SyncPlain, Flavour::AsyncPlain];
            let chosen: Vec<Flavour> = if tier == "quick" { vec![all[i % 3]] } else { all.to_vec() };
            for fl in chosen {
                let key = (Arc::as_ptr(&s.spec) as usize, fl);
                let sp = cache.entry(key).or_insert_with(|| flavoured_spec(&s.spec, fl)).clone();
                // Fall back to the context-carrying sync form when the context-free one cannot run the scripts.
                let (sp, fl) = match sp {
                    Some(sp) => (Some(sp), fl),
                    None if fl != Flavour::SyncCx => {
                        let key = (Arc::as_ptr(&s.spec) as usize, Flavour::SyncCx);
                        (cache.entry(key).or_insert_with(|| flavoured_spec(&s.spec, Flavour::SyncCx)).clone(), Flavour::SyncCx)
                    }
                    None => (None, fl),
                };
                if let Some(sp) = sp {
                    sc.push(Scenario { spec: sp, cmds: s.cmds.clone(), label: format!("{}/{:?}", s.label, fl), prelude: s.prelude.clone() });
                }
            }
        }
        if sc.is_empty() {
            continue;
        }
        let name: &'static str = Box::leak(format!("{}+flavours", f.name).into_boxed_str());
        let mut g = Family::new(name, f.tags, sc);
        g.dev_bound = f.dev_bound;
        g.max_execs = f.max_execs;
        g.invariant_outcome = false;
        g.hang_is_violation = f.hang_is_violation;
        g.base_secs = f.base_secs;
        g.weight = 0.35;
        extra.push(g);
    }
    fams.extend(extra);
    fams
}
