//! Scenario families per property (engine S).

use std::sync::Arc;

use crate::check::Family;
use crate::world::*;

pub fn to(node: usize) -> Conn {
    Conn::To { node, mode: Mode::Plain }
}
pub fn tom(node: usize, mode: Mode) -> Conn {
    Conn::To { node, mode }
}
pub fn send(port: usize, tag: u16) -> Op {
    Op::Send { port, tag, val: Val::In }
}
pub fn sendp(port: usize, tag: u16, k: i64) -> Op {
    Op::Send { port, tag, val: Val::InPlus(k) }
}
pub fn sendc(port: usize, tag: u16, c: i64) -> Op {
    Op::Send { port, tag, val: Val::C(c) }
}
pub fn query(port: usize, tag: u16) -> Op {
    Op::Query { port, tag, val: Val::In }
}
pub fn sched_self(kind: SKind, when: When, tag: u16, slot: usize) -> Op {
    Op::Sched { kind, when, tag, val: Val::In, slot }
}
pub fn pe(node: usize, tag: u16, val: i64) -> Cmd {
    Cmd::ProcEvent { node, tag, val }
}
pub fn scn(label: impl Into<String>, spec: &Arc<BenchSpec>, cmds: Vec<Cmd>) -> Scenario {
    Scenario {
        spec: spec.clone(),
        cmds,
        label: label.into(),
    }
}

/// All sequences over `alphabet` of length 1..=depth.
pub fn seqs<T: Clone>(alphabet: &[T], depth: usize) -> Vec<Vec<T>> {
    let mut out: Vec<Vec<T>> = vec![];
    let mut layer: Vec<Vec<T>> = vec![vec![]];
    for _ in 0..depth {
        let mut next = vec![];
        for s in &layer {
            for a in alphabet {
                let mut s2 = s.clone();
                s2.push(a.clone());
                next.push(s2);
            }
        }
        out.extend(next.iter().cloned());
        layer = next;
    }
    out
}

pub const TAGS_TIME: &[&str] = &[
    "step_time",
    "time_backwards",
    "handler_time",
    "time_read",
    "sched_missed",
    "sched_dup",
    "sched_wrong_time",
    "sched_overdue",
    "cmd_time",
    "pending_not_future",
];

// ---------------------------------------------------------------------------
// C01
// ---------------------------------------------------------------------------

fn c01_spec() -> Arc<BenchSpec> {
    // A: scripted self-scheduler, forwards to B. B: passive reader.
    let a = NodeSpec::new("A", 4)
        .script(1, vec![Op::ReadTime])
        .script(2, vec![sched_self(SKind::Once, When::Rel(1), 1, 2)])
        .script(3, vec![sched_self(SKind::Once, When::Rel(2), 1, 2), send(0, 1)])
        .script(4, vec![sched_self(SKind::KeyedPeriodic(1), When::Rel(1), 1, 1)])
        .script(5, vec![Op::Cancel { slot: 1 }])
        .out(vec![to(1)]);
    let b = NodeSpec::new("B", 4).script(1, vec![Op::ReadTime]);
    Arc::new(BenchSpec::new(vec![a, b]))
}

fn c01_alphabet() -> Vec<Cmd> {
    use Cmd::*;
    vec![
        Step,
        Sched { node: 0, kind: SKind::Once, when: When::Rel(1), tag: 1, val: 1, slot: 0 },
        Sched { node: 0, kind: SKind::Once, when: When::Rel(2), tag: 2, val: 2, slot: 0 },
        StepUntil(When::Rel(1)),
        StepUntil(When::Rel(3)),
        Sched { node: 1, kind: SKind::Once, when: When::Abs(3), tag: 1, val: 3, slot: 0 },
        Sched { node: 0, kind: SKind::Keyed, when: When::Rel(2), tag: 3, val: 4, slot: 0 },
        Sched { node: 1, kind: SKind::Periodic(2), when: When::Rel(1), tag: 1, val: 5, slot: 0 },
        Sched { node: 0, kind: SKind::KeyedPeriodic(1), when: When::Rel(3), tag: 1, val: 6, slot: 1 },
        Cancel { slot: 0 },
        Cancel { slot: 1 },
        StepUntil(When::Rel(0)),
        StepUntil(When::Abs(1)),
        ProcEvent { node: 0, tag: 2, val: 7 },
        ProcEvent { node: 0, tag: 4, val: 8 },
        ProcEvent { node: 0, tag: 5, val: 9 },
        ProcQuery { node: 1, tag: 1, val: 10 },
    ]
}

fn c01_concurrent_spec() -> Arc<BenchSpec> {
    // A and B both react to timed events by sending to C and re-arming
    // themselves; C reads the time.
    let a = NodeSpec::new("A", 2)
        .script(1, vec![sendp(0, 1, 100), sched_self(SKind::Once, When::Rel(1), 2, 0)])
        .script(2, vec![sendp(0, 1, 200)])
        .out(vec![to(2)]);
    let b = NodeSpec::new("B", 2)
        .script(1, vec![sendp(0, 1, 300), sched_self(SKind::Once, When::Rel(2), 2, 0)])
        .script(2, vec![sendp(0, 1, 400)])
        .out(vec![to(2)]);
    let c = NodeSpec::new("C", 1).script(1, vec![Op::ReadTime]);
    Arc::new(BenchSpec::new(vec![a, b, c]))
}

pub fn c01(tier: &str) -> Vec<Family> {
    let spec = c01_spec();
    let depth = if tier == "quick" { 3 } else { 4 };
    let alpha = c01_alphabet();
    let scenarios: Vec<Scenario> = seqs(&alpha, depth)
        .into_iter()
        .enumerate()
        .map(|(i, cmds)| scn(format!("seq#{}", i), &spec, cmds))
        .collect();
    let mut fams = vec![Family::new("driver_sequences", TAGS_TIME, scenarios)];
    // Depth-4/5 sequences over a reduced alphabet (the eight commands that
    // create and consume pending actions).
    let alpha2: Vec<Cmd> = [0usize, 1, 2, 4, 6, 7, 9, 13].iter().map(|i| alpha[*i].clone()).collect();
    let d2 = if tier == "quick" { 4 } else { 5 };
    let sc2: Vec<Scenario> = seqs(&alpha2, d2)
        .into_iter()
        .filter(|s| s.len() == d2)
        .enumerate()
        .map(|(i, cmds)| scn(format!("deep#{}", i), &spec, cmds))
        .collect();
    fams.push(Family::new("deep_sequences", TAGS_TIME, sc2));
    let cs = c01_concurrent_spec();
    let mk = |k: usize| {
        let mut cmds = vec![
            Cmd::Sched { node: 0, kind: SKind::Once, when: When::Rel(1), tag: 1, val: 1, slot: 0 },
            Cmd::Sched { node: 1, kind: SKind::Once, when: When::Rel(1), tag: 1, val: 2, slot: 0 },
            Cmd::Sched { node: 1, kind: SKind::Periodic(1), when: When::Rel(2), tag: 2, val: 3, slot: 0 },
        ];
        match k {
            0 => cmds.extend([Cmd::Step, Cmd::Step, Cmd::Step]),
            1 => cmds.extend([Cmd::StepUntil(When::Rel(3))]),
            2 => cmds.extend([Cmd::Step, Cmd::StepUntil(When::Rel(2))]),
            _ => cmds.extend([Cmd::StepUntil(When::Rel(1)), Cmd::Step, Cmd::Step]),
        }
        cmds
    };
    let sc3: Vec<Scenario> = (0..4).map(|k| scn(format!("concurrent#{}", k), &cs, mk(k))).collect();
    fams.push(Family::new("concurrent_models", TAGS_TIME, sc3).cap(if tier == "quick" { 30_000 } else { 2_000_000 }));
    fams
}
