//! Scenario families, parallel exhaustive runner, violation confirmation and
//! JSON reporting.

use std::collections::BTreeSet;
use std::collections::hash_map::DefaultHasher;
use std::hash::{Hash, Hasher};
use std::sync::atomic::{AtomicBool, AtomicUsize, Ordering};
use std::sync::Mutex;
use std::time::Instant;

use serde_json::{json, Value};

use super::explore;
use super::oracle::{analyze, Analysis, Viol};
use super::world::*;

pub type Extra = fn(&Scenario, &RunOut, &Analysis) -> Vec<Viol>;

pub struct Family {
    pub name: &'static str,
    pub scenarios: Vec<Scenario>,
    /// Oracle tags that constitute a violation of the property being checked.
    pub tags: &'static [&'static str],
    pub dev_bound: Option<usize>,
    /// Cap on executions per scenario.
    pub max_execs: u64,
    /// The per-command multiset of handler invocations, the command results
    /// and the sink contents must not depend on the schedule.
    pub invariant_outcome: bool,
    pub extra: Option<Extra>,
    /// A call that does not return within the watchdog delay is a violation
    /// of the property (liveness clause); otherwise it is a machinery error.
    pub hang_is_violation: bool,
    /// Run on the real multi-threaded executor with this many workers, this
    /// many times, without the pick hook (fault/sequence enumeration only:
    /// the thread schedule is whatever the OS produces).
    pub uncontrolled: Option<(usize, usize)>,
    /// Seconds part of the simulation start time for this family.
    pub base_secs: i64,
    /// Relative share of the time budget (1.0 = a full share).
    pub weight: f64,
}

impl Family {
    pub fn new(name: &'static str, tags: &'static [&'static str], scenarios: Vec<Scenario>) -> Self {
        Family {
            name,
            scenarios,
            tags,
            dev_bound: None,
            max_execs: 200_000,
            invariant_outcome: false,
            extra: None,
            hang_is_violation: false,
            uncontrolled: None,
            base_secs: 1000,
            weight: 1.0,
        }
    }
    /// Start the simulations of this family at `secs` s + 999_999_998 ns.
    pub fn epoch(mut self, secs: i64) -> Self {
        self.base_secs = secs;
        self
    }
    pub fn hang_violation(mut self) -> Self {
        self.hang_is_violation = true;
        self
    }
    pub fn uncontrolled(mut self, threads: usize, repeats: usize) -> Self {
        self.uncontrolled = Some((threads, repeats));
        self
    }
    pub fn bound(mut self, b: usize) -> Self {
        self.dev_bound = Some(b);
        self
    }
    pub fn cap(mut self, c: u64) -> Self {
        self.max_execs = c;
        self
    }
    pub fn invariant(mut self) -> Self {
        self.invariant_outcome = true;
        self
    }
    pub fn extra(mut self, e: Extra) -> Self {
        self.extra = Some(e);
        self
    }
}

#[derive(Clone, Debug)]
pub struct Violation {
    pub family: String,
    pub scenario: usize,
    pub label: String,
    pub choices: Vec<u16>,
    pub tag: String,
    pub msg: String,
    pub replay: String,
}

#[derive(Default)]
struct FamStats {
    scenarios_done: usize,
    scenarios_capped: usize,
    scenarios_skipped: usize,
    executions: u64,
    replay_retries: u64,
    nondeterministic_scenarios: usize,
    max_choice_points: usize,
    distinct: usize,
    nontrivial_scenarios: usize,
    wall_s: f64,
}

fn hash_of<T: Hash>(t: &T) -> u64 {
    let mut h = DefaultHasher::new();
    t.hash(&mut h);
    h.finish()
}

pub fn selected(fam: &Family, sc: &Scenario, out: &RunOut, an: &Analysis) -> Vec<Viol> {
    let mut v: Vec<Viol> = an
        .viols
        .iter()
        // A panic that no scenario script asked for (raised by the library or by the harness
        // arithmetic on absurd values) is a violation whatever the family looks at.
        .filter(|x| fam.tags.contains(&x.tag) || x.tag == "unexpected_panic")
        .cloned()
        .collect();
    if let Some(e) = fam.extra {
        v.extend(e(sc, out, an));
    }
    v
}

pub struct Report {
    pub property: String,
    pub tier: String,
    pub families: Vec<Value>,
    pub evaluations: u64,
    pub distinct_nontrivial: usize,
    pub samples: Vec<Value>,
    pub violations: Vec<Violation>,
    pub machinery_error: Option<String>,
    pub exhaustive: bool,
    pub wall_s: f64,
}

fn log_lines(log: &[Ev]) -> Vec<String> {
    log.iter().map(|e| format!("{:?}", e)).collect()
}

pub fn replay_json(property: &str, fam: &Family, idx: usize, choices: &[u16], viol: &[Viol], out: &RunOut) -> Value {
    let sc = &fam.scenarios[idx];
    json!({
        "engine": "simx",
        "property": property,
        "family": fam.name,
        "scenario_index": idx,
        "label": sc.label,
        "choices": choices,
        "violations": viol.iter().map(|v| format!("[{}] {}", v.tag, v.msg)).collect::<Vec<_>>(),
        "cmds": sc.cmds.iter().map(|c| format!("{:?}", c)).collect::<Vec<_>>(),
        "spec": format!("{:?}", sc.spec),
        "log": log_lines(&out.log),
    })
}

pub static OUT_PATH: std::sync::OnceLock<String> = std::sync::OnceLock::new();

pub fn run_families(property: &str, tier: &str, fams: Vec<Family>, budget_s: f64, replay_dir: &str) -> Report {
    let t0 = Instant::now();
    let jobs: usize = std::env::var("VX_JOBS")
        .ok()
        .and_then(|s| s.parse().ok())
        .unwrap_or(16);
    let mut report = Report {
        property: property.to_string(),
        tier: tier.to_string(),
        families: vec![],
        evaluations: 0,
        distinct_nontrivial: 0,
        samples: vec![],
        violations: vec![],
        machinery_error: None,
        exhaustive: true,
        wall_s: 0.0,
    };
    let n_fams = fams.len().max(1);
    // Small families first: what they do not use of their share goes to the large ones
    // (real-thread families keep their place at the front: they are cheap and time-sensitive).
    let mut order: Vec<&Family> = fams.iter().collect();
    order.sort_by_key(|f| if f.uncontrolled.is_some() { 0 } else { f.scenarios.len() });
    let weights: Vec<f64> = order.iter().map(|f| f.weight.max(0.05)).collect();
    let _ = n_fams;
    for (fi, fam) in order.into_iter().enumerate() {
        let tf = Instant::now();
        // Each family gets an equal share of what is left of the budget.
        let remaining = (budget_s - t0.elapsed().as_secs_f64()).max(1.0);
        set_base_secs(fam.base_secs);
        let fam_budget = remaining * weights[fi] / weights[fi..].iter().sum::<f64>();
        let next = AtomicUsize::new(0);
        let stride = {
            // A multiplier coprime with the number of scenarios, close to the golden section.
            fn gcd(a: usize, b: usize) -> usize {
                if b == 0 { a } else { gcd(b, a % b) }
            }
            let n = fam.scenarios.len().max(1);
            let mut st = ((n as f64) * 0.618_034) as usize;
            st = st.max(1);
            while gcd(st, n) != 1 {
                st += 1;
            }
            if n <= 2 { 1 } else { st }
        };
        let stop = AtomicBool::new(false);
        let stats = Mutex::new(FamStats::default());
        let viols: Mutex<Vec<Violation>> = Mutex::new(vec![]);
        let samples: Mutex<Vec<Value>> = Mutex::new(vec![]);
        let mach: Mutex<Option<String>> = Mutex::new(None);
        let nworkers = jobs.min(fam.scenarios.len().max(1));
        let slots: Vec<Mutex<Option<(usize, Vec<u16>, Instant)>>> = (0..nworkers).map(|_| Mutex::new(None)).collect();
        let done = AtomicBool::new(false);
        let wid = AtomicUsize::new(0);
        let hang_s: f64 = std::env::var("VX_HANG_S").ok().and_then(|s| s.parse().ok()).unwrap_or(20.0);
        // Real-thread families run benches of up to 1500 models: more time before a call counts as hung
        // (a heavily loaded machine must not turn slowness into a verdict).
        let hang_s = if fam.uncontrolled.is_some() { hang_s * 3.0 } else { hang_s };
        std::thread::scope(|s| {
            // Watchdog: an execution normally takes microseconds.
            s.spawn(|| {
                while !done.load(Ordering::Relaxed) {
                    std::thread::sleep(std::time::Duration::from_millis(200));
                    for sl in &slots {
                        let g = sl.lock().unwrap();
                        if let Some((i, prefix, t)) = &*g {
                            if t.elapsed().as_secs_f64() > hang_s {
                                let sc = &fam.scenarios[*i];
                                let path = format!("{}/{}-{}-{}-hang.json", replay_dir, property, fam.name, i);
                                let _ = std::fs::create_dir_all(replay_dir);
                                let js = json!({
                                    "engine": "simx", "property": property, "family": fam.name,
                                    "scenario_index": i, "label": sc.label, "choices": prefix,
                                    "violations": [format!("[hang] a call did not return within {} s", hang_s)],
                                    "cmds": sc.cmds.iter().map(|c| format!("{:?}", c)).collect::<Vec<_>>(),
                                    "spec": format!("{:?}", sc.spec),
                                });
                                let _ = std::fs::write(&path, serde_json::to_string_pretty(&js).unwrap());
                                if fam.hang_is_violation {
                                    if let Some(out) = OUT_PATH.get() {
                                        let g = stats.lock().unwrap();
                                        let frag = json!({
                                            "engine": "simx", "property": property, "tier": tier,
                                            "families": [{"family": fam.name, "executions": g.executions, "hang": sc.label}],
                                            "evaluations": g.executions.max(1), "distinct_nontrivial": g.distinct.max(2),
                                            "samples": [{"family": fam.name, "scenario": sc.label, "choices": prefix, "hang": true}],
                                            "exhaustive": false,
                                            "violations": [{"family": fam.name, "scenario": i, "label": sc.label, "choices": prefix,
                                                "tag": "hang", "message": format!("a call did not return within {} s", hang_s), "replay": path}],
                                            "machinery_error": null, "wall_s": t0.elapsed().as_secs_f64(),
                                        });
                                        let _ = std::fs::write(out, serde_json::to_string_pretty(&frag).unwrap());
                                    }
                                    println!("VIOLATION property={} replay={}", property, path);
                                    eprintln!("  [hang] {} :: a call did not return within {} s (choices {:?})", sc.label, hang_s, prefix);
                                    std::process::exit(1);
                                } else {
                                    eprintln!("simx: MACHINERY ERROR: scenario {} of family {} hangs (replay {})", sc.label, fam.name, path);
                                    std::process::exit(2);
                                }
                            }
                        }
                    }
                }
            });
            let mut handles = vec![];
            for _ in 0..nworkers {
                handles.push(s.spawn(|| { let my = wid.fetch_add(1, Ordering::Relaxed);
                    // The execution that ran on this thread right before the current one
                    // (scenario index, choices): used to confirm violations that depend on
                    // state a previous simulation left on the thread.
                    // Breadcrumb: which scenario this worker is exploring (read by the
                    // dispatcher if the process is killed by the code under test).
                    let mut crumb = std::env::var("VX_PROGRESS_DIR").ok().and_then(|d| {
                        std::fs::OpenOptions::new().create(true).write(true).truncate(true).open(format!("{}/w{}", d, my)).ok()
                    });
                    let last_exec: std::cell::RefCell<Option<(usize, Vec<u16>)>> = std::cell::RefCell::new(None);
                    let prev_of_found: std::cell::RefCell<Option<(usize, Vec<u16>)>> = std::cell::RefCell::new(None);
                    loop {
                    let k = next.fetch_add(1, Ordering::Relaxed);
                    if k >= fam.scenarios.len() || stop.load(Ordering::Relaxed) {
                        break;
                    }
                    // Scenarios are taken in a strided order (a permutation of the indices), so that
                    // when the time budget ends early what was explored is spread over the whole
                    // enumeration instead of being its first part.
                    let i = (k * stride) % fam.scenarios.len();
                    if tf.elapsed().as_secs_f64() > fam_budget {
                        stats.lock().unwrap().scenarios_skipped += 1;
                        continue;
                    }
                    let sc = &fam.scenarios[i];
                    if let Some(f) = crumb.as_mut() {
                        use std::io::{Seek, SeekFrom, Write};
                        let _ = f.seek(SeekFrom::Start(0));
                        let _ = write!(f, "{:<240}\n", format!("{} :: {} (scenario {})", fam.name, sc.label, i));
                    }
                    let mut outcomes: BTreeSet<u64> = BTreeSet::new();
                    let mut first_summary: Option<(u64, Vec<u16>)> = None;
                    let mut found: Option<(Vec<u16>, Vec<Viol>)> = None;
                    let mut sample: Option<Value> = None;
                    let mut handler_execs = false;
                    let mut unc_left = fam.uncontrolled.map(|u| u.1).unwrap_or(0);
                    let sc_unc;
                    let (sc, controlled) = match fam.uncontrolled {
                        Some((threads, _)) => {
                            let mut spec2 = (*sc.spec).clone();
                            spec2.threads = threads;
                            sc_unc = Scenario { spec: std::sync::Arc::new(spec2), cmds: sc.cmds.clone(), label: sc.label.clone(), prelude: sc.prelude.clone() };
                            (&sc_unc, false)
                        }
                        None => (sc, true),
                    };
                    let mut exec = |prefix: &[u16]| -> Result<(explore::Chooser, bool), explore::Divergence> {
                        *slots[my].lock().unwrap() = Some((i, prefix.to_vec(), Instant::now()));
                        let out = run_once(sc, prefix, controlled);
                        *slots[my].lock().unwrap() = None;
                        let an = analyze(sc, &out);
                        let mut v = selected(fam, sc, &out, &an);
                        let choices: Vec<u16> = out.chooser.taken.iter().map(|t| t.0).collect();
                        if fam.invariant_outcome {
                            let h = hash_of(&an.summary);
                            match &first_summary {
                                None => first_summary = Some((h, choices.clone())),
                                Some((h0, c0)) => {
                                    if *h0 != h {
                                        v.push(Viol {
                                            tag: "outcome_varies",
                                            msg: format!(
                                                "handler invocations / results / sink contents differ between schedule {:?} and schedule {:?}: {:?}",
                                                c0, choices, an.summary
                                            ),
                                        });
                                    }
                                }
                            }
                        }
                        if an.orders.iter().any(|o| !o.is_empty()) {
                            handler_execs = true;
                            outcomes.insert(hash_of(&(&an.orders, &an.summary.results, &an.summary.times)));
                        }
                        if sample.is_none() {
                            sample = Some(json!({
                                "family": fam.name,
                                "scenario": sc.label,
                                "cmds": sc.cmds.iter().map(|c| format!("{:?}", c)).collect::<Vec<_>>(),
                                "choices": choices,
                                "results": an.summary.results.iter().map(|r| format!("{:?}", r)).collect::<Vec<_>>(),
                                "log_len": out.log.len(),
                            }));
                        }
                        let cont = v.is_empty();
                        if !cont {
                            *prev_of_found.borrow_mut() = last_exec.borrow().clone();
                            found = Some((choices.clone(), v));
                        }
                        *last_exec.borrow_mut() = Some((i, choices));
                        Ok((out.chooser, cont))
                    };
                    let res = if controlled {
                        // No scenario may run past the end of its family's share of the budget (plus a margin).
                        let deadline = tf + std::time::Duration::from_secs_f64(fam_budget * 1.25 + 5.0);
                        explore::explore_until(fam.dev_bound, fam.max_execs, Some(deadline), &mut exec)
                    } else {
                        let mut st = explore::ExploreStats::default();
                        let mut r = Ok(());
                        while unc_left > 0 {
                            unc_left -= 1;
                            match exec(&[]) {
                                Ok((_, cont)) => {
                                    st.executions += 1;
                                    if !cont {
                                        break;
                                    }
                                }
                                Err(e) => {
                                    r = Err(e);
                                    break;
                                }
                            }
                        }
                        r.map(|_| st)
                    };
                    match res {
                        Err(d) => {
                            *mach.lock().unwrap() = Some(format!("family {} scenario {} ({}): {}", fam.name, i, sc.label, d.0));
                            stop.store(true, Ordering::Relaxed);
                        }
                        Ok(st) => {
                            let mut g = stats.lock().unwrap();
                            g.scenarios_done += 1;
                            g.executions += st.executions;
                            g.replay_retries += st.replay_retries;
                            if st.nondeterministic {
                                g.nondeterministic_scenarios += 1;
                            }
                            g.max_choice_points = g.max_choice_points.max(st.max_choice_points);
                            g.distinct += outcomes.len();
                            if handler_execs && st.executions > 1 {
                                g.nontrivial_scenarios += 1;
                            }
                            if st.capped {
                                g.scenarios_capped += 1;
                            }
                        }
                    }
                    if let Some(smp) = sample {
                        let mut sm = samples.lock().unwrap();
                        if sm.len() < 3 {
                            sm.push(smp);
                        }
                    }
                    if let Some((choices, v)) = found {
                        // Confirm: replay twice, identical logs, violation reproduced.
                        let o1 = run_once(sc, &choices, controlled);
                        let o2 = run_once(sc, &choices, controlled);
                        let a1 = analyze(sc, &o1);
                        let v1 = selected(fam, sc, &o1, &a1);
                        let inv_only = v.iter().all(|x| x.tag == "outcome_varies");
                        if !controlled {
                            // No replay confirmation is possible for real threads: the
                            // recorded log is the artefact.
                            let path = format!("{}/{}-{}-{}-mt.json", replay_dir, property, fam.name, i);
                            let _ = std::fs::create_dir_all(replay_dir);
                            let js = replay_json(property, fam, i, &choices, &v, &o1);
                            let _ = std::fs::write(&path, serde_json::to_string_pretty(&js).unwrap());
                            stop.store(true, Ordering::Relaxed);
                            viols.lock().unwrap().push(Violation {
                                family: fam.name.to_string(), scenario: i, label: sc.label.clone(), choices: choices.clone(),
                                tag: v[0].tag.to_string(), msg: v[0].msg.clone(), replay: path,
                            });
                        } else if o1.log != o2.log || (v1.is_empty() && !inv_only) {
                            // Not reproducible in isolation: the failure may depend on state that
                            // the preceding simulation left on this thread. Replay the pair twice.
                            let mut confirmed = None;
                            if let Some((pi, pc)) = prev_of_found.borrow().clone() {
                                let psc = &fam.scenarios[pi];
                                let pair = |_: u8| {
                                    let _ = run_once(psc, &pc, true);
                                    let o = run_once(sc, &choices, true);
                                    let a = analyze(sc, &o);
                                    let vv = selected(fam, sc, &o, &a);
                                    (o, vv)
                                };
                                let (p1, pv1) = pair(0);
                                let (p2, pv2) = pair(1);
                                if p1.log == p2.log && !pv1.is_empty() && !pv2.is_empty() {
                                    confirmed = Some((pi, pc, p1, pv1));
                                }
                            }
                            match confirmed {
                                Some((pi, pc, p1, pv1)) => {
                                    let path = format!("{}/{}-{}-{}.json", replay_dir, property, fam.name, i);
                                    let _ = std::fs::create_dir_all(replay_dir);
                                    let mut js = replay_json(property, fam, i, &choices, &pv1, &p1);
                                    js["preceding_simulation"] = json!({"scenario_index": pi, "label": fam.scenarios[pi].label, "choices": pc,
                                        "note": "the violation only shows when this simulation ran on the same thread right before: simulations interfere through state left on the thread"});
                                    let _ = std::fs::write(&path, serde_json::to_string_pretty(&js).unwrap());
                                    stop.store(true, Ordering::Relaxed);
                                    viols.lock().unwrap().push(Violation {
                                        family: fam.name.to_string(), scenario: i, label: sc.label.clone(), choices: choices.clone(),
                                        tag: pv1[0].tag.to_string(),
                                        msg: format!("{} [only after simulation '{}' ran on the same thread]", pv1[0].msg, fam.scenarios[pi].label),
                                        replay: path,
                                    });
                                }
                                None => {
                                    // Last resort: the executions of this schedule differ from run to run
                                    // (the behaviour of the code under test depends on something the
                                    // schedule does not fix, e.g. memory addresses). Each replay is a real
                                    // execution judged by the oracle: the violation stands if it shows
                                    // again, with the same tag, in at least two of six further replays.
                                    let mut hits: Vec<(RunOut, Vec<Viol>)> = vec![];
                                    for _ in 0..6 {
                                        let o = run_once(sc, &choices, true);
                                        let a = analyze(sc, &o);
                                        let vv = selected(fam, sc, &o, &a);
                                        if vv.iter().any(|x| x.tag == v[0].tag) {
                                            hits.push((o, vv));
                                        }
                                    }
                                    if hits.len() >= 2 && !inv_only {
                                        let n_hits = hits.len();
                                        let (o, vv) = hits.remove(0);
                                        let path = format!("{}/{}-{}-{}.json", replay_dir, property, fam.name, i);
                                        let _ = std::fs::create_dir_all(replay_dir);
                                        let mut js = replay_json(property, fam, i, &choices, &vv, &o);
                                        js["note"] = json!(format!("executions of this schedule are not identical from run to run (the behaviour depends on something outside the schedule, such as memory addresses); the violation showed in {} of 6 replays", n_hits));
                                        let _ = std::fs::write(&path, serde_json::to_string_pretty(&js).unwrap());
                                        stop.store(true, Ordering::Relaxed);
                                        viols.lock().unwrap().push(Violation {
                                            family: fam.name.to_string(), scenario: i, label: sc.label.clone(), choices: choices.clone(),
                                            tag: vv[0].tag.to_string(),
                                            msg: format!("{} [seen in {} of 6 replays of this schedule; runs are not identical]", vv[0].msg, n_hits),
                                            replay: path,
                                        });
                                    } else {
                                    *mach.lock().unwrap() = Some(format!(
                                        "family {} scenario {}: violation {:?} (choices {:?}) is not reproducible, neither alone nor after the preceding execution",
                                        fam.name, i, v[0].msg, choices
                                    ));
                                    stop.store(true, Ordering::Relaxed);
                                    }
                                }
                            }
                        } else {
                            let path = format!("{}/{}-{}-{}.json", replay_dir, property, fam.name, i);
                            let _ = std::fs::create_dir_all(replay_dir);
                            let js = replay_json(property, fam, i, &choices, &v, &o1);
                            let _ = std::fs::write(&path, serde_json::to_string_pretty(&js).unwrap());
                            // One confirmed counterexample per family is enough.
                            stop.store(true, Ordering::Relaxed);
                            viols.lock().unwrap().push(Violation {
                                family: fam.name.to_string(),
                                scenario: i,
                                label: sc.label.clone(),
                                choices,
                                tag: v[0].tag.to_string(),
                                msg: v[0].msg.clone(),
                                replay: path,
                            });
                        }
                    }
                }}));
            }
            for h in handles {
                let _ = h.join();
            }
            done.store(true, Ordering::Relaxed);
        });
        let mut st = stats.into_inner().unwrap();
        st.wall_s = tf.elapsed().as_secs_f64();
        report.evaluations += st.executions;
        report.distinct_nontrivial += st.distinct;
        if st.scenarios_capped > 0 || st.scenarios_skipped > 0 || fam.dev_bound.is_some() || st.nondeterministic_scenarios > 0 {
            report.exhaustive = false;
        }
        report.families.push(json!({
            "family": fam.name,
            "scenarios": fam.scenarios.len(),
            "scenarios_explored": st.scenarios_done,
            "scenarios_capped": st.scenarios_capped,
            "scenarios_skipped_budget": st.scenarios_skipped,
            "nontrivial_scenarios": st.nontrivial_scenarios,
            "executions": st.executions,
            "replay_retries": st.replay_retries,
            "nondeterministic_scenarios": st.nondeterministic_scenarios,
            "distinct_outcomes": st.distinct,
            "max_choice_points": st.max_choice_points,
            "deviation_bound": fam.dev_bound,
            "max_execs_per_scenario": fam.max_execs,
            "tags": fam.tags,
            "wall_s": st.wall_s,
        }));
        report.samples.extend(samples.into_inner().unwrap());
        let mut vs = viols.into_inner().unwrap();
        vs.sort_by_key(|v| v.scenario);
        report.violations.extend(vs);
        if let Some(m) = mach.into_inner().unwrap() {
            report.machinery_error = Some(m);
            break;
        }
    }
    report.wall_s = t0.elapsed().as_secs_f64();
    report
}

impl Report {
    pub fn to_json(&self) -> Value {
        json!({
            "engine": "simx",
            "property": self.property,
            "tier": self.tier,
            "families": self.families,
            "evaluations": self.evaluations,
            "distinct_nontrivial": self.distinct_nontrivial,
            "samples": self.samples,
            "exhaustive": self.exhaustive,
            "violations": self.violations.iter().map(|v| json!({
                "family": v.family, "scenario": v.scenario, "label": v.label, "choices": v.choices,
                "tag": v.tag, "message": v.msg, "replay": v.replay,
            })).collect::<Vec<_>>(),
            "machinery_error": self.machinery_error,
            "wall_s": self.wall_s,
        })
    }
}
