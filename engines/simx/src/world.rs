//! Generic scripted bench: models interpreting small handler scripts, a
//! recording world (event log, drop tracking, shared key table), a scripted
//! clock, a bench builder and a driver-command interpreter, all on top of the
//! public API of the real `nexosim` crate.

use std::collections::{BTreeMap, BTreeSet};
use std::future::Future;
use std::panic::{self, AssertUnwindSafe};
use std::pin::Pin;
use std::sync::{Arc, Mutex};
use std::task::{Context as TaskCx, Poll, Waker};
use std::time::Duration;

use nexosim::model::{BuildContext, Context, InitializedModel, Model, ProtoModel};
use nexosim::ports::{
    EventBuffer, EventSinkStream, EventSlot, EventSource, Output, QuerySource, Requestor, UniRequestor,
};

/// Requestor-port indices at or above this value designate `UniRequestor` ports.
pub const UNI_BASE: usize = 1000;
use nexosim::simulation::{
    ActionKey, Address, AutoActionKey, ExecutionError, Mailbox, Scheduler, SchedulingError,
    SimInit, Simulation,
};
use nexosim::time::{Clock, MonotonicTime, SyncStatus};

use super::explore;

/// Seconds part of the simulation start time. Process-wide and set per
/// family (families run one after the other): negative values put the whole
/// scenario before the epoch, -1 makes it cross the epoch.
static BASE_SECS: std::sync::atomic::AtomicI64 = std::sync::atomic::AtomicI64::new(1000);
pub const BASE_NANOS: u32 = 999_999_998;

pub fn set_base_secs(v: i64) {
    BASE_SECS.store(v, std::sync::atomic::Ordering::SeqCst);
}
fn base_secs() -> i64 {
    BASE_SECS.load(std::sync::atomic::Ordering::SeqCst)
}

pub fn mt(off: i64) -> MonotonicTime {
    let total = BASE_NANOS as i64 + off;
    let secs = base_secs() + total.div_euclid(1_000_000_000);
    let nanos = total.rem_euclid(1_000_000_000) as u32;
    MonotonicTime::new(secs, nanos).unwrap()
}
pub fn off(t: MonotonicTime) -> i64 {
    // Saturating: a wildly wrong time must be reported as such, not overflow the harness arithmetic.
    let v = (t.as_secs() as i128 - base_secs() as i128) * 1_000_000_000 + t.subsec_nanos() as i128 - BASE_NANOS as i128;
    v.clamp(i64::MIN as i128 + 1, i64::MAX as i128 - 1) as i64
}

// ---------------------------------------------------------------------------
// Log
// ---------------------------------------------------------------------------

#[derive(Clone, Debug, PartialEq, Eq, PartialOrd, Ord, Hash)]
pub enum E {
    Terminated,
    Deadlock(Vec<(String, usize)>),
    MessageLoss(usize),
    NoRecipient(Option<String>),
    Panic { model: String, payload: String },
    Timeout,
    OutOfSync(u64),
    BadQuery,
    InvalidDeadline(i64),
}

impl E {
    pub fn is_fatal(&self) -> bool {
        !matches!(self, E::BadQuery | E::InvalidDeadline(_) | E::Terminated)
    }
    pub fn kind(&self) -> &'static str {
        match self {
            E::Terminated => "Terminated",
            E::Deadlock(_) => "Deadlock",
            E::MessageLoss(_) => "MessageLoss",
            E::NoRecipient(_) => "NoRecipient",
            E::Panic { .. } => "Panic",
            E::Timeout => "Timeout",
            E::OutOfSync(_) => "OutOfSync",
            E::BadQuery => "BadQuery",
            E::InvalidDeadline(_) => "InvalidDeadline",
        }
    }
}

#[derive(Clone, Copy, Debug, PartialEq, Eq, PartialOrd, Ord, Hash)]
pub enum SE {
    InvalidScheduledTime,
    NullRepetitionPeriod,
}

#[derive(Clone, Debug, PartialEq, Eq, PartialOrd, Ord, Hash)]
pub enum Res {
    Ok,
    Err(E),
    SchedOk,
    SchedErr(SE),
    Replies(Vec<(usize, i64)>),
    /// A panic escaped from the API call.
    Panicked(String),
    /// The command could not be issued (e.g. simulation already dropped).
    Skipped,
}

#[derive(Clone, Copy, Debug, PartialEq, Eq, PartialOrd, Ord, Hash)]
pub enum SKind {
    Once,
    Keyed,
    Periodic(u64),
    KeyedPeriodic(u64),
}
impl SKind {
    pub fn period(&self) -> Option<u64> {
        match self {
            SKind::Periodic(p) | SKind::KeyedPeriodic(p) => Some(*p),
            _ => None,
        }
    }
    pub fn keyed(&self) -> bool {
        matches!(self, SKind::Keyed | SKind::KeyedPeriodic(_))
    }
}

/// Who issued a request: the driver (global scheduler) or a model.
pub type Origin = Option<usize>;

#[derive(Clone, Debug, PartialEq, Eq, PartialOrd, Ord, Hash)]
pub enum Ev {
    Cmd(usize),
    Ret(usize, Res, i64),
    Sync(i64),
    Build { node: usize, name: String },
    InitS { node: usize, name: String },
    InitE { node: usize },
    HS { node: usize, id: u32, tag: u16, val: i64, t: i64, q: bool },
    HE { node: usize, id: u32 },
    SendS { node: usize, port: usize, id: u32, val: i64 },
    SendE { node: usize, port: usize, id: u32 },
    QryS { node: usize, port: usize, id: u32, val: i64 },
    QryE { node: usize, port: usize, id: u32, replies: Vec<(usize, i64)>, partial: bool },
    /// A scheduling request: `at` is the absolute deadline (offset) the
    /// request designates given the time `now` read by the requester right
    /// before the call. `target` is the node whose input is targeted, or
    /// `src` for source actions.
    Sched {
        by: Origin,
        id: u32,
        kind: SKind,
        at: i64,
        now: i64,
        target: Target,
        tag: u16,
        val: i64,
        res: Result<(), SE>,
    },
    Cancel { by: Origin, id: u32 },
    Connect { node: usize, port: usize, target: usize },
    /// A map / filter_map closure of an event source connection was evaluated for message `id`.
    MapEval { id: u32 },
    /// A connection added by the driver through a clone of an output port that it kept.
    ConnectVia { node: usize, port: usize, conn: Conn },
    /// A connection added to an event source after the bench was built.
    ConnectSrc { src: usize, conn: Conn },
    Fault { node: usize, kind: PanicKind },
    Blocked(u64),
    TimeRead { node: usize, t: i64 },
    ModelDrop { node: usize },
    DropStart,
    DropEnd,
    Note(String),
}

#[derive(Clone, Copy, Debug, PartialEq, Eq, PartialOrd, Ord, Hash)]
pub enum Target {
    Node(usize),
    Src(usize),
}

// ---------------------------------------------------------------------------
// World
// ---------------------------------------------------------------------------

#[derive(Default)]
struct WInner {
    log: Vec<Ev>,
    next_id: u32,
    parked: Vec<Waker>,
    live: BTreeSet<u64>,
    next_tok: u64,
    double_drops: u64,
    keys: Vec<Option<(ActionKey, u32)>>,
    auto_keys: Vec<Option<(AutoActionKey, u32)>>,
}

pub struct W {
    inner: Mutex<WInner>,
    pub controlled: bool,
    /// Scheduler handle for input methods that take no context (time reads).
    sched: Mutex<Option<Scheduler>>,
}

impl W {
    pub fn new(controlled: bool) -> Arc<W> {
        Arc::new(W {
            inner: Mutex::new(WInner {
                next_id: 1,
                ..Default::default()
            }),
            controlled,
            sched: Mutex::new(None),
        })
    }
    pub fn set_sched(&self, s: Option<Scheduler>) {
        *self.sched.lock().unwrap() = s;
    }
    /// Simulation time (offset) as seen through the scheduler handle.
    pub fn time_now(&self) -> i64 {
        match &*self.sched.lock().unwrap() {
            Some(s) => off(s.time()),
            None => panic!("harness: a context-free input method ran before the scheduler handle was available"),
        }
    }
    pub fn log(&self, ev: Ev) {
        self.inner.lock().unwrap().log.push(ev);
    }
    pub fn fresh_id(&self) -> u32 {
        let mut i = self.inner.lock().unwrap();
        let id = i.next_id;
        i.next_id += 1;
        id
    }
    pub fn take_log(&self) -> Vec<Ev> {
        std::mem::take(&mut self.inner.lock().unwrap().log)
    }
    pub fn log_len(&self) -> usize {
        self.inner.lock().unwrap().log.len()
    }
    pub fn yield_now(self: &Arc<Self>) -> YieldNow {
        YieldNow {
            w: self.clone(),
            done: !self.controlled,
        }
    }
    fn park(&self, w: Waker) {
        self.inner.lock().unwrap().parked.push(w);
    }
    pub fn take_parked(&self) -> Vec<Waker> {
        std::mem::take(&mut self.inner.lock().unwrap().parked)
    }
    fn tok_new(&self) -> u64 {
        let mut i = self.inner.lock().unwrap();
        let t = i.next_tok;
        i.next_tok += 1;
        i.live.insert(t);
        t
    }
    fn tok_drop(&self, t: u64) {
        let mut i = self.inner.lock().unwrap();
        if !i.live.remove(&t) {
            i.double_drops += 1;
        }
    }
    pub fn live_tokens(&self) -> usize {
        self.inner.lock().unwrap().live.len()
    }
    pub fn double_drops(&self) -> u64 {
        self.inner.lock().unwrap().double_drops
    }
    pub fn store_key(&self, slot: usize, key: ActionKey, id: u32) {
        let mut i = self.inner.lock().unwrap();
        if i.keys.len() <= slot {
            i.keys.resize_with(slot + 1, || None);
        }
        i.keys[slot] = Some((key, id));
    }
    /// Takes the key out of the slot.
    pub fn take_key(&self, slot: usize) -> Option<(ActionKey, u32)> {
        let mut i = self.inner.lock().unwrap();
        i.keys.get_mut(slot).and_then(|k| k.take())
    }
    /// Clones the key in the slot.
    pub fn clone_key(&self, slot: usize) -> Option<(ActionKey, u32)> {
        let i = self.inner.lock().unwrap();
        i.keys.get(slot).and_then(|k| k.clone())
    }
    pub fn store_auto_key(&self, slot: usize, key: AutoActionKey, id: u32) {
        let mut i = self.inner.lock().unwrap();
        if i.auto_keys.len() <= slot {
            i.auto_keys.resize_with(slot + 1, || None);
        }
        i.auto_keys[slot] = Some((key, id));
    }
    pub fn take_auto_key(&self, slot: usize) -> Option<(AutoActionKey, u32)> {
        let mut i = self.inner.lock().unwrap();
        i.auto_keys.get_mut(slot).and_then(|k| k.take())
    }
    pub fn clear_keys(&self) {
        let (a, b) = {
            let mut i = self.inner.lock().unwrap();
            (std::mem::take(&mut i.keys), std::mem::take(&mut i.auto_keys))
        };
        // Auto keys must not cancel anything at this point: forget them.
        for k in b.into_iter().flatten() {
            std::mem::forget(k.0);
        }
        drop(a);
    }
}

pub struct YieldNow {
    w: Arc<W>,
    done: bool,
}
impl Future for YieldNow {
    type Output = ();
    fn poll(mut self: Pin<&mut Self>, cx: &mut TaskCx<'_>) -> Poll<()> {
        if self.done {
            return Poll::Ready(());
        }
        self.done = true;
        self.w.park(cx.waker().clone());
        Poll::Pending
    }
}

/// A value whose every instance (including clones) must be dropped exactly
/// once.
pub struct Tracked {
    w: Arc<W>,
    tok: u64,
}
impl Tracked {
    pub fn new(w: &Arc<W>) -> Self {
        Tracked {
            w: w.clone(),
            tok: w.tok_new(),
        }
    }
}
impl Clone for Tracked {
    fn clone(&self) -> Self {
        Tracked::new(&self.w)
    }
}
impl Drop for Tracked {
    fn drop(&mut self) {
        self.w.tok_drop(self.tok);
    }
}
impl std::fmt::Debug for Tracked {
    fn fmt(&self, f: &mut std::fmt::Formatter<'_>) -> std::fmt::Result {
        write!(f, "#")
    }
}

#[derive(Clone, Debug)]
pub struct Msg {
    pub id: u32,
    pub tag: u16,
    pub val: i64,
    pub tok: Tracked,
}
impl Msg {
    pub fn new(w: &Arc<W>, id: u32, tag: u16, val: i64) -> Self {
        Msg {
            id,
            tag,
            val,
            tok: Tracked::new(w),
        }
    }
}

#[derive(Clone, Debug)]
pub struct Reply {
    pub from: usize,
    pub id: u32,
    pub val: i64,
    /// Every reply (and every clone of it) must be dropped exactly once, read or not.
    pub tok: Tracked,
}

pub fn reply_val(node: usize, val: i64) -> i64 {
    val * 16 + node as i64 + 1
}

// ---------------------------------------------------------------------------
// Scripts
// ---------------------------------------------------------------------------

#[derive(Clone, Copy, Debug, PartialEq, Eq, PartialOrd, Ord, Hash)]
pub enum Val {
    C(i64),
    /// The value of the message being handled.
    In,
    InPlus(i64),
}

#[derive(Clone, Copy, Debug, PartialEq, Eq, PartialOrd, Ord, Hash)]
pub enum When {
    Rel(u64),
    Abs(i64),
}

#[derive(Clone, Copy, Debug, PartialEq, Eq, PartialOrd, Ord, Hash)]
pub enum PanicKind {
    Str,
    String,
    Custom,
}

#[derive(Clone, Debug, PartialEq, Eq)]
pub struct CustomPayload(pub u32);

#[derive(Clone, Debug, PartialEq, Eq, PartialOrd, Ord, Hash)]
pub enum Op {
    Send { port: usize, tag: u16, val: Val },
    Query { port: usize, tag: u16, val: Val },
    /// Query, but only the first `take` replies are pulled from the reply
    /// iterator before it is dropped.
    QueryTake { port: usize, tag: u16, val: Val, take: usize },
    /// Query through a `UniRequestor` port (at most one reply).
    UniQuery { port: usize, tag: u16, val: Val },
    /// Schedule an event on this model's own input.
    Sched { kind: SKind, when: When, tag: u16, val: Val, slot: usize },
    /// Cancel (consuming the key stored in the shared slot).
    Cancel { slot: usize },
    /// Cancel through a clone of the key, leaving the original in the slot.
    CancelClone { slot: usize },
    /// Drop the auto key stored in the shared slot (cancels the action).
    DropAuto { slot: usize },
    ReadTime,
    Panic(PanicKind),
    /// Block the thread for the given number of milliseconds.
    Block(u64),
    /// Extra yield point.
    Yield,
    /// Builds, runs and drops another (inner) simulation with this many models from inside
    /// the handler (co-simulation), on the same kind of executor as the enclosing one.
    Nested(usize),
    /// Builds a bench of this many models for an inner simulation and drops it without
    /// initialising it (its model tasks are still scheduled).
    NestedUninit(usize),
    /// Connect output port `port` of this node (through the node's own port
    /// object, possibly a clone shared with another node) to `target`.
    Connect { port: usize, target: usize },
}

#[derive(Clone, Copy, Debug, PartialEq, Eq, PartialOrd, Ord, Hash)]
pub enum Mode {
    Plain,
    /// Adds the constant to the value.
    Map(i64),
    /// Keeps values whose remainder modulo 2 equals the constant, and adds 100.
    Filter(i64),
    /// Keeps values greater than or equal to the constant, and adds 100.
    FilterGe(i64),
}
impl Mode {
    pub fn apply(&self, v: i64) -> Option<i64> {
        match self {
            Mode::Plain => Some(v),
            Mode::Map(k) => Some(v + k),
            Mode::Filter(k) => {
                if v.rem_euclid(2) == *k {
                    Some(v + 100)
                } else {
                    None
                }
            }
            Mode::FilterGe(k) => {
                if v >= *k {
                    Some(v + 100)
                } else {
                    None
                }
            }
        }
    }
}

#[derive(Clone, Copy, Debug, PartialEq, Eq, PartialOrd, Ord, Hash)]
pub enum Conn {
    To { node: usize, mode: Mode },
    Buf { sink: usize, mode: Mode },
    Slot { sink: usize, mode: Mode },
}

#[derive(Clone, Copy, Debug, PartialEq, Eq, PartialOrd, Ord, Hash)]
pub enum Placement {
    /// Added to the simulation (top-level or as a sub-model of `parent`).
    Added,
    /// Mailbox kept alive but never added.
    Orphan,
    /// Mailbox dropped before initialisation.
    Dropped,
}

/// Which form of input method receives the events addressed to a node.
#[derive(Clone, Copy, Debug, PartialEq, Eq, Hash, Default)]
pub enum Flavour {
    /// `async fn(&mut self, T, &mut Context<Self>)`
    #[default]
    AsyncCx,
    /// `fn(&mut self, T, &mut Context<Self>)`
    SyncCx,
    /// `fn(&mut self, T)`
    SyncPlain,
    /// `async fn(&mut self, T)`
    AsyncPlain,
}

/// Evaluates `$e` with `$f` bound to the input method of the given flavour.
macro_rules! with_input {
    ($fl:expr, $f:ident => $e:expr) => {
        match $fl {
            Flavour::AsyncCx => {
                let $f = Node::on_event;
                $e
            }
            Flavour::SyncCx => {
                let $f = Node::on_event_sync;
                $e
            }
            Flavour::SyncPlain => {
                let $f = Node::on_event_plain;
                $e
            }
            Flavour::AsyncPlain => {
                let $f = Node::on_event_aplain;
                $e
            }
        }
    };
}

#[derive(Clone, Debug, PartialEq, Eq, Hash)]
pub struct NodeSpec {
    pub name: String,
    /// Form of the input method used for events sent or scheduled to this node.
    pub flavour: Flavour,
    pub cap: usize,
    pub parent: Option<usize>,
    pub placement: Placement,
    pub init: Vec<Op>,
    pub scripts: BTreeMap<u16, Vec<Op>>,
    pub outs: Vec<Vec<Conn>>,
    /// Requestor ports: connections to repliers (only `Conn::To`).
    pub reqs: Vec<Vec<Conn>>,
    /// `UniRequestor` ports: exactly one connection each.
    pub unis: Vec<Conn>,
    /// If set, output port i of this node is a *clone* of output port
    /// `share_out.1` of node `share_out.0` (clones share connections).
    pub share_out: Option<(usize, usize)>,
    /// Connections added *through the clone* obtained by `share_out` (after
    /// cloning): they must be seen by the original port as well.
    pub share_conns: Vec<Conn>,
}

impl NodeSpec {
    pub fn new(name: &str, cap: usize) -> Self {
        NodeSpec {
            name: name.to_string(),
            flavour: Flavour::AsyncCx,
            cap,
            parent: None,
            placement: Placement::Added,
            init: vec![],
            scripts: BTreeMap::new(),
            outs: vec![],
            reqs: vec![],
            unis: vec![],
            share_out: None,
            share_conns: vec![],
        }
    }
    pub fn flavour(mut self, f: Flavour) -> Self {
        self.flavour = f;
        self
    }
    pub fn script(mut self, tag: u16, ops: Vec<Op>) -> Self {
        self.scripts.insert(tag, ops);
        self
    }
    pub fn init(mut self, ops: Vec<Op>) -> Self {
        self.init = ops;
        self
    }
    pub fn out(mut self, conns: Vec<Conn>) -> Self {
        self.outs.push(conns);
        self
    }
    pub fn req(mut self, conns: Vec<Conn>) -> Self {
        self.reqs.push(conns);
        self
    }
    pub fn uni(mut self, conn: Conn) -> Self {
        self.unis.push(conn);
        self
    }
    pub fn parent(mut self, p: usize) -> Self {
        self.parent = Some(p);
        self
    }
    pub fn placement(mut self, p: Placement) -> Self {
        self.placement = p;
        self
    }
}

#[derive(Clone, Debug, PartialEq, Eq, Hash)]
pub struct ClockSpec {
    /// Answer to the k-th call of `synchronize` (k = 0 is the call made by
    /// `init`): `None` = Synchronized, `Some(lag_ns)` = OutOfSync(lag).
    /// Calls beyond the list are answered `Synchronized`.
    pub answers: Vec<Option<u64>>,
    /// (k, deadline, node): during the k-th call of `synchronize` the clock
    /// itself schedules an event (tag 1) for `node` at the absolute deadline,
    /// through a `Scheduler` handle.
    pub schedules: Vec<(usize, i64, usize)>,
}

#[derive(Clone, Debug, PartialEq, Eq, Hash)]
pub struct BenchSpec {
    pub nodes: Vec<NodeSpec>,
    pub bufs: Vec<usize>,
    pub slots: usize,
    /// Event sources (connections as for output ports).
    pub srcs: Vec<Vec<Conn>>,
    /// Query sources.
    pub qsrcs: Vec<Vec<Conn>>,
    pub threads: usize,
    pub clock: ClockSpec,
    pub tolerance_ns: Option<u64>,
    pub timeout_ms: u64,
    /// The driver keeps a clone of every output port (for `Cmd::ConnectVia`).
    pub hold_port_clones: bool,
    /// Call `set_clock_tolerance` before `set_clock` (instead of after).
    pub tolerance_first: bool,
    /// Configure the step timeout with `Simulation::set_timeout` after `init` (instead of `SimInit::set_timeout`).
    pub timeout_after_init: bool,
}

impl BenchSpec {
    pub fn new(nodes: Vec<NodeSpec>) -> Self {
        BenchSpec {
            nodes,
            bufs: vec![],
            slots: 0,
            srcs: vec![],
            qsrcs: vec![],
            threads: 1,
            clock: ClockSpec { answers: vec![], schedules: vec![] },
            tolerance_ns: None,
            timeout_ms: 0,
            hold_port_clones: false,
            tolerance_first: false,
            timeout_after_init: false,
        }
    }
    /// Fully qualified name of node i.
    pub fn qname(&self, i: usize) -> String {
        let n = &self.nodes[i];
        let own = if n.name.is_empty() {
            "<unknown>".to_string()
        } else {
            n.name.clone()
        };
        match n.parent {
            Some(p) => format!("{}.{}", self.qname(p), own),
            None => own,
        }
    }
    /// Is node i (transitively) part of the simulation?
    pub fn in_sim(&self, i: usize) -> bool {
        let n = &self.nodes[i];
        if n.placement != Placement::Added {
            return false;
        }
        match n.parent {
            Some(p) => self.in_sim(p),
            None => true,
        }
    }
}

// ---------------------------------------------------------------------------
// Model
// ---------------------------------------------------------------------------

pub struct Node {
    pub idx: usize,
    w: Arc<W>,
    spec: Arc<BenchSpec>,
    outs: Vec<Output<Msg>>,
    reqs: Vec<Requestor<Msg, Reply>>,
    unis: Vec<UniRequestor<Msg, Reply>>,
    addrs: Arc<Vec<Address<Node>>>,
    _guard: ModelGuard,
}

struct ModelGuard {
    w: Arc<W>,
    node: usize,
    _tok: Tracked,
}
impl Drop for ModelGuard {
    fn drop(&mut self) {
        self.w.log(Ev::ModelDrop { node: self.node });
    }
}

fn eval(v: Val, msg_val: i64) -> i64 {
    match v {
        Val::C(c) => c,
        Val::In => msg_val,
        Val::InPlus(k) => msg_val + k,
    }
}

fn deadline_of(when: When, now: i64) -> i64 {
    match when {
        When::Rel(d) => now + d as i64,
        When::Abs(a) => a,
    }
}

impl Node {
    pub async fn on_event(&mut self, msg: Msg, cx: &mut Context<Self>) {
        self.handle(msg, cx, false).await;
    }
    pub fn on_event_sync(&mut self, msg: Msg, cx: &mut Context<Self>) {
        let t = off(cx.time());
        self.handle_sync(msg, t, Some(cx));
    }
    pub fn on_event_plain(&mut self, msg: Msg) {
        let t = self.w.time_now();
        self.handle_sync(msg, t, None);
    }
    pub async fn on_event_aplain(&mut self, msg: Msg) {
        let t = self.w.time_now();
        self.handle_sync(msg, t, None);
    }
    /// Non-suspending handler body: the operations of the script that need no await.
    pub async fn on_query_plain(&mut self, msg: Msg) -> Reply {
        let (id, val) = (msg.id, msg.val);
        let t = self.w.time_now();
        self.handle_sync_q(msg, t, None, true);
        Reply { from: self.idx, id, val: reply_val(self.idx, val), tok: Tracked::new(&self.w) }
    }
    fn handle_sync(&mut self, msg: Msg, t: i64, cx: Option<&mut Context<Self>>) {
        self.handle_sync_q(msg, t, cx, false)
    }
    fn handle_sync_q(&mut self, msg: Msg, t: i64, mut cx: Option<&mut Context<Self>>, q: bool) {
        let w = self.w.clone();
        let node = self.idx;
        w.log(Ev::HS { node, id: msg.id, tag: msg.tag, val: msg.val, t, q });
        let spec = self.spec.clone();
        if let Some(ops) = spec.nodes[self.idx].scripts.get(&msg.tag) {
            for op in ops {
                match *op {
                    Op::Sched { kind, when, tag, val, slot } => {
                        let Some(cx) = cx.as_deref_mut() else { panic!("harness: Sched in a context-free handler") };
                        let id = w.fresh_id();
                        let v = eval(val, msg.val);
                        let now = off(cx.time());
                        let at = deadline_of(when, now);
                        let m = Msg::new(&w, id, tag, v);
                        let res = sched_on_ctx(cx, &w, kind, when, m, slot, id, spec.nodes[node].flavour);
                        w.log(Ev::Sched { by: Some(node), id, kind, at, now, target: Target::Node(node), tag, val: v, res });
                    }
                    Op::Cancel { slot } => {
                        if let Some((key, id)) = w.take_key(slot) {
                            key.cancel();
                            w.log(Ev::Cancel { by: Some(node), id });
                        }
                    }
                    Op::CancelClone { slot } => {
                        if let Some((key, id)) = w.clone_key(slot) {
                            key.cancel();
                            w.log(Ev::Cancel { by: Some(node), id });
                        }
                    }
                    Op::DropAuto { slot } => {
                        if let Some((key, id)) = w.take_auto_key(slot) {
                            drop(key);
                            w.log(Ev::Cancel { by: Some(node), id });
                        }
                    }
                    Op::ReadTime => {
                        let t = match cx.as_deref_mut() {
                            Some(cx) => off(cx.time()),
                            None => w.time_now(),
                        };
                        w.log(Ev::TimeRead { node, t });
                    }
                    Op::Yield => {}
                    ref other => panic!("harness: operation {:?} needs an async handler with a context", other),
                }
            }
        }
        w.log(Ev::HE { node, id: msg.id });
        drop(msg);
    }
    pub async fn on_query(&mut self, msg: Msg, cx: &mut Context<Self>) -> Reply {
        let (id, val) = (msg.id, msg.val);
        self.handle(msg, cx, true).await;
        Reply {
            from: self.idx,
            id,
            val: reply_val(self.idx, val),
            tok: Tracked::new(&self.w),
        }
    }
    async fn handle(&mut self, msg: Msg, cx: &mut Context<Self>, q: bool) {
        let t = off(cx.time());
        self.w.log(Ev::HS {
            node: self.idx,
            id: msg.id,
            tag: msg.tag,
            val: msg.val,
            t,
            q,
        });
        let spec = self.spec.clone();
        if let Some(ops) = spec.nodes[self.idx].scripts.get(&msg.tag) {
            self.run_ops(ops, cx, msg.val).await;
        }
        self.w.log(Ev::HE {
            node: self.idx,
            id: msg.id,
        });
        drop(msg);
    }
    fn run_ops<'a>(
        &'a mut self,
        ops: &'a [Op],
        cx: &'a mut Context<Self>,
        in_val: i64,
    ) -> Pin<Box<dyn Future<Output = ()> + Send + 'a>> {
        Box::pin(self.run_ops_inner(ops, cx, in_val))
    }
    async fn run_ops_inner(&mut self, ops: &[Op], cx: &mut Context<Self>, in_val: i64) {
        let w = self.w.clone();
        let node = self.idx;
        for op in ops {
            w.yield_now().await;
            match *op {
                Op::Send { port, tag, val } => {
                    let id = w.fresh_id();
                    let v = eval(val, in_val);
                    w.log(Ev::SendS { node, port, id, val: v });
                    self.outs[port].send(Msg::new(&w, id, tag, v)).await;
                    w.log(Ev::SendE { node, port, id });
                }
                Op::Query { port, tag, val } => {
                    let id = w.fresh_id();
                    let v = eval(val, in_val);
                    w.log(Ev::QryS { node, port, id, val: v });
                    let replies: Vec<(usize, i64)> = self.reqs[port]
                        .send(Msg::new(&w, id, tag, v))
                        .await
                        .map(|r| {
                            // A reply computed for another query is reported
                            // with a sentinel value (the oracle flags it).
                            (r.from, if r.id == id { r.val } else { i64::MIN + r.id as i64 })
                        })
                        .collect();
                    w.log(Ev::QryE { node, port, id, replies, partial: false });
                }
                Op::UniQuery { port, tag, val } => {
                    let id = w.fresh_id();
                    let v = eval(val, in_val);
                    w.log(Ev::QryS { node, port: UNI_BASE + port, id, val: v });
                    let replies: Vec<(usize, i64)> = self.unis[port]
                        .send(Msg::new(&w, id, tag, v))
                        .await
                        .map(|r| (r.from, if r.id == id { r.val } else { i64::MIN + r.id as i64 }))
                        .into_iter()
                        .collect();
                    w.log(Ev::QryE { node, port: UNI_BASE + port, id, replies, partial: false });
                }
                Op::QueryTake { port, tag, val, take } => {
                    let id = w.fresh_id();
                    let v = eval(val, in_val);
                    w.log(Ev::QryS { node, port, id, val: v });
                    let replies: Vec<(usize, i64)> = self.reqs[port]
                        .send(Msg::new(&w, id, tag, v))
                        .await
                        .take(take)
                        .map(|r| {
                            // A reply computed for another query is reported
                            // with a sentinel value (the oracle flags it).
                            (r.from, if r.id == id { r.val } else { i64::MIN + r.id as i64 })
                        })
                        .collect();
                    w.log(Ev::QryE { node, port, id, replies, partial: true });
                }
                Op::Sched { kind, when, tag, val, slot } => {
                    let id = w.fresh_id();
                    let v = eval(val, in_val);
                    let now = off(cx.time());
                    let at = deadline_of(when, now);
                    let msg = Msg::new(&w, id, tag, v);
                    let res = sched_on_ctx(cx, &w, kind, when, msg, slot, id, self.spec.nodes[node].flavour);
                    w.log(Ev::Sched {
                        by: Some(node),
                        id,
                        kind,
                        at,
                        now,
                        target: Target::Node(node),
                        tag,
                        val: v,
                        res,
                    });
                }
                Op::Cancel { slot } => {
                    if let Some((key, id)) = w.take_key(slot) {
                        key.cancel();
                        w.log(Ev::Cancel { by: Some(node), id });
                    }
                }
                Op::CancelClone { slot } => {
                    if let Some((key, id)) = w.clone_key(slot) {
                        key.cancel();
                        w.log(Ev::Cancel { by: Some(node), id });
                    }
                }
                Op::DropAuto { slot } => {
                    if let Some((key, id)) = w.take_auto_key(slot) {
                        drop(key);
                        w.log(Ev::Cancel { by: Some(node), id });
                    }
                }
                Op::ReadTime => {
                    w.log(Ev::TimeRead {
                        node,
                        t: off(cx.time()),
                    });
                }
                Op::Panic(k) => {
                    w.log(Ev::Fault { node, kind: k });
                    match k {
                    PanicKind::Str => panic!("boom"),
                    PanicKind::String => panic!("boom {}", node),
                    PanicKind::Custom => panic::panic_any(CustomPayload(node as u32 + 7)),
                    }
                }
                Op::Block(ms) => {
                    w.log(Ev::Blocked(ms));
                    std::thread::sleep(Duration::from_millis(ms))
                }
                Op::Yield => {}
                Op::Nested(k) => {
                    run_nested(&w, k, self.spec.threads);
                }
                Op::NestedUninit(k) => {
                    w.log(Ev::Note(format!("bench of {} models built and dropped without init", k)));
                    let mut init = SimInit::with_num_threads(self.spec.threads);
                    for j in 0..k {
                        let mb: Mailbox<Inner> = Mailbox::new();
                        init = init.add_model(Inner { w: w.clone(), _tok: Tracked::new(&w) }, mb, format!("inner{}", j));
                    }
                    drop(init);
                }
                Op::Connect { port, target } => {
                    let a = self.addrs[target].clone();
                    late_connect(&mut self.outs[port], a);
                    w.log(Ev::Connect { node, port, target });
                }
            }
        }
    }
}

/// Evaluates `$e` with `$f` bound to the replier method of the given flavour
/// (replier methods are always async; the context-free flavours use the form without context).
macro_rules! with_replier {
    ($fl:expr, $f:ident => $e:expr) => {
        match $fl {
            Flavour::AsyncCx | Flavour::SyncCx => {
                let $f = Node::on_query;
                $e
            }
            Flavour::SyncPlain | Flavour::AsyncPlain => {
                let $f = Node::on_query_plain;
                $e
            }
        }
    };
}

/// A model whose ports carry the unit type and whose input / replier methods take no argument
/// (the forms `fn(&mut self)`, `async fn(&mut self)` and `async fn(&mut self) -> R`).
pub struct UnitModel {
    pings: u32,
    apings: u32,
    out: Output<()>,
    req: Requestor<(), u32>,
    seen: Arc<Mutex<Vec<Vec<u32>>>>,
    _tok: Tracked,
}
impl UnitModel {
    pub fn ping(&mut self) {
        self.pings += 1;
    }
    pub async fn aping(&mut self) {
        self.apings += 1;
    }
    pub async fn ask(&mut self) -> u32 {
        self.pings * 100 + self.apings
    }
    pub async fn fwd(&mut self) {
        self.out.send(()).await;
        let r: Vec<u32> = self.req.send(()).await.collect();
        self.seen.lock().unwrap().push(r);
    }
}
impl Model for UnitModel {}

/// Builds, runs and drops a small bench of `UnitModel`s (driver side) and compares what it
/// observes with the expected figures; panics with a description on any difference.
pub fn run_unit_bench(w: &Arc<W>, threads: usize, rounds: u32) {
    let seen = Arc::new(Mutex::new(vec![]));
    let mk = |w: &Arc<W>| UnitModel { pings: 0, apings: 0, out: Output::new(), req: Requestor::new(), seen: seen.clone(), _tok: Tracked::new(w) };
    let (mut a, b, c) = (mk(w), mk(w), mk(w));
    let (mba, mbb, mbc): (Mailbox<UnitModel>, Mailbox<UnitModel>, Mailbox<UnitModel>) = (Mailbox::with_capacity(1), Mailbox::with_capacity(1), Mailbox::with_capacity(2));
    let (aa, ab, ac) = (mba.address(), mbb.address(), mbc.address());
    let sink: EventBuffer<()> = EventBuffer::with_capacity(3);
    a.out.connect(UnitModel::ping, &ab);
    a.out.connect(UnitModel::aping, &ab);
    a.out.connect(UnitModel::aping, &ac);
    a.out.connect_sink(&sink);
    a.req.connect(UnitModel::ask, &ab);
    a.req.connect(UnitModel::ask, &ac);
    let mut src: EventSource<()> = EventSource::new();
    src.connect(UnitModel::ping, &ac);
    let mut qsrc: QuerySource<(), u32> = QuerySource::new();
    qsrc.connect(UnitModel::ask, &ab);
    let init = SimInit::with_num_threads(threads).add_model(a, mba, "a").add_model(b, mbb, "b").add_model(c, mbc, "c");
    let (mut simu, sched) = init.init(mt(0)).expect("unit bench: init failed");
    for k in 0..rounds {
        simu.process_event(UnitModel::fwd, (), &aa).expect("unit bench: process_event failed");
        sched.schedule_event(Duration::from_nanos(1), UnitModel::ping, (), &ab).expect("unit bench: schedule_event failed");
        sched.schedule(Duration::from_nanos(1), src.event(())).expect("unit bench: schedule failed");
        simu.step().expect("unit bench: step failed");
        // b: one ping + one aping per fwd, one scheduled ping per round; c: one aping per fwd, one source ping per round.
        let n = k + 1;
        let got_b = simu.process_query(UnitModel::ask, (), &ab).expect("unit bench: process_query failed");
        let got_c = simu.process_query(UnitModel::ask, (), &ac).expect("unit bench: process_query failed");
        assert_eq!(got_b, (2 * n) * 100 + n, "[unit_bench] model b counted pings*100+apings = {} after {} rounds", got_b, n);
        assert_eq!(got_c, n * 100 + n, "[unit_bench] model c counted pings*100+apings = {} after {} rounds", got_c, n);
        let (action, mut rx) = qsrc.query(());
        simu.process(action).expect("unit bench: process failed");
        let r: Vec<u32> = rx.take().expect("unit bench: no reply iterator").collect();
        assert_eq!(r, vec![got_b], "[unit_bench] query source replies");
    }
    let seen_now = seen.lock().unwrap().clone();
    assert_eq!(seen_now.len() as u32, rounds, "[unit_bench] number of completed fwd handlers");
    for (k, r) in seen_now.iter().enumerate() {
        // At the k-th fwd: b has handled k scheduled pings + (k+1) pings and apings, c k source pings + (k+1) apings.
        let k = k as u32;
        assert_eq!(r, &vec![(2 * k + 1) * 100 + k + 1, k * 100 + k + 1], "[unit_bench] replies seen by fwd #{}", k);
    }
    let mut sink = sink;
    let held = (&mut sink).count();
    assert_eq!(held as u32, rounds.min(3), "[unit_bench] unit events held by the sink of capacity 3");
    drop(simu);
    drop(sched);
}

/// Model of the inner simulations run by `Op::Nested`.
pub struct Inner {
    w: Arc<W>,
    _tok: Tracked,
}
impl Inner {
    pub async fn ping(&mut self, msg: Msg) {
        self.w.log(Ev::Note(format!("inner ping {}", msg.val)));
        drop(msg);
    }
}
impl Model for Inner {}

fn run_nested(w: &Arc<W>, k: usize, threads: usize) {
    // The inner simulation runs under its default schedule: the harness hooks of the
    // enclosing execution (pick order, yields) are suspended meanwhile.
    let controlled = w.controlled;
    if controlled {
        remove_hooks();
    }
    w.log(Ev::Note(format!("nested simulation with {} models: start", k)));
    let mut init = SimInit::with_num_threads(threads);
    let mut addrs = vec![];
    for j in 0..k {
        let mb: Mailbox<Inner> = Mailbox::new();
        addrs.push(mb.address());
        init = init.add_model(Inner { w: w.clone(), _tok: Tracked::new(w) }, mb, format!("inner{}", j));
    }
    let r = init.init(mt(0));
    if let Ok((mut simu, _sched)) = r {
        for (j, a) in addrs.iter().enumerate() {
            let id = w.fresh_id();
            let _ = simu.process_event(Inner::ping, Msg::new(w, id, 1, j as i64), a);
        }
        drop(simu);
    }
    drop(addrs);
    w.log(Ev::Note("nested simulation: dropped".into()));
    if controlled {
        install_hooks(w);
    }
}

fn late_connect(out: &mut Output<Msg>, a: Address<Node>) {
    out.connect(Node::on_event, a);
}

fn se(e: SchedulingError) -> SE {
    match e {
        SchedulingError::InvalidScheduledTime => SE::InvalidScheduledTime,
        SchedulingError::NullRepetitionPeriod => SE::NullRepetitionPeriod,
    }
}

fn sched_on_ctx(
    cx: &mut Context<Node>,
    w: &Arc<W>,
    kind: SKind,
    when: When,
    msg: Msg,
    slot: usize,
    id: u32,
    flavour: Flavour,
) -> Result<(), SE> {
    macro_rules! go {
        ($dl:expr) => {
            with_input!(flavour, f => match kind {
                SKind::Once => cx.schedule_event($dl, f, msg).map_err(se),
                SKind::Keyed => cx
                    .schedule_keyed_event($dl, f, msg)
                    .map(|k| w.store_key(slot, k, id))
                    .map_err(se),
                SKind::Periodic(p) => cx
                    .schedule_periodic_event($dl, Duration::from_nanos(p), f, msg)
                    .map_err(se),
                SKind::KeyedPeriodic(p) => cx
                    .schedule_keyed_periodic_event($dl, Duration::from_nanos(p), f, msg)
                    .map(|k| w.store_key(slot, k, id))
                    .map_err(se),
            })
        };
    }
    match when {
        When::Rel(d) => go!(Duration::from_nanos(d)),
        When::Abs(a) => go!(mt(a)),
    }
}

impl Model for Node {
    async fn init(mut self, cx: &mut Context<Self>) -> InitializedModel<Self> {
        let w = self.w.clone();
        w.log(Ev::InitS {
            node: self.idx,
            name: cx.name().to_string(),
        });
        let spec = self.spec.clone();
        let ops = &spec.nodes[self.idx].init;
        if !ops.is_empty() {
            self.run_ops(ops, cx, 0).await;
        }
        w.log(Ev::InitE { node: self.idx });
        self.into()
    }
}

pub struct ProtoNode {
    node: Node,
    children: Vec<(ProtoNode, Mailbox<Node>, String)>,
}

impl ProtoModel for ProtoNode {
    type Model = Node;
    fn build(self, cx: &mut BuildContext<Self>) -> Node {
        self.node.w.log(Ev::Build {
            node: self.node.idx,
            name: cx.name().to_string(),
        });
        for (child, mb, name) in self.children {
            cx.add_submodel(child, mb, name);
        }
        self.node
    }
}

// ---------------------------------------------------------------------------
// Clock
// ---------------------------------------------------------------------------

struct RecClock {
    w: Arc<W>,
    answers: Vec<Option<u64>>,
    schedules: Vec<(usize, i64, usize)>,
    handle: Arc<Mutex<Option<(Scheduler, Arc<Vec<Address<Node>>>)>>>,
    k: usize,
}
impl Clock for RecClock {
    fn synchronize(&mut self, deadline: MonotonicTime) -> SyncStatus {
        self.w.log(Ev::Sync(off(deadline)));
        for (k, at, node) in self.schedules.clone() {
            if k == self.k {
                if let Some((sched, addrs)) = &*self.handle.lock().unwrap() {
                    let id = self.w.fresh_id();
                    let now = off(sched.time());
                    let res = sched.schedule_event(mt(at), Node::on_event, Msg::new(&self.w, id, 1, 900 + k as i64), &addrs[node]).map_err(se);
                    self.w.log(Ev::Sched { by: None, id, kind: SKind::Once, at, now, target: Target::Node(node), tag: 1, val: 900 + k as i64, res });
                }
            }
        }
        let a = self.answers.get(self.k).copied().flatten();
        self.k += 1;
        match a {
            None => SyncStatus::Synchronized,
            // u64::MAX stands for the largest lag a clock can report.
            Some(u64::MAX) => SyncStatus::OutOfSync(Duration::MAX),
            Some(lag) => SyncStatus::OutOfSync(Duration::from_nanos(lag)),
        }
    }
}

// ---------------------------------------------------------------------------
// Bench construction
// ---------------------------------------------------------------------------

pub struct Built {
    pub w: Arc<W>,
    pub simu: Option<Simulation>,
    pub sched: Option<Scheduler>,
    pub addrs: Arc<Vec<Address<Node>>>,
    pub bufs: Vec<EventBuffer<Msg>>,
    pub slots: Vec<EventSlot<Msg>>,
    pub srcs: Vec<EventSource<Msg>>,
    pub qsrcs: Vec<QuerySource<Msg, Reply>>,
    pub orphans: Vec<Mailbox<Node>>,
    pub init_res: Res,
    pub flavours: Vec<Flavour>,
    pub out_clones: Vec<Vec<Output<Msg>>>,
    pub threads: usize,
    /// Reply receivers of scheduled query actions, kept unread.
    pub rxs: Vec<nexosim::ports::ReplyReceiver<Reply>>,
}

fn conv_err(e: ExecutionError) -> E {
    match e {
        ExecutionError::Terminated => E::Terminated,
        ExecutionError::Deadlock(v) => {
            E::Deadlock(v.into_iter().map(|d| (d.model, d.mailbox_size)).collect())
        }
        ExecutionError::MessageLoss(n) => E::MessageLoss(n),
        ExecutionError::NoRecipient { model } => E::NoRecipient(model),
        ExecutionError::Panic { model, payload } => {
            let p = if let Some(s) = payload.downcast_ref::<&str>() {
                format!("str:{}", s)
            } else if let Some(s) = payload.downcast_ref::<String>() {
                format!("string:{}", s)
            } else if let Some(c) = payload.downcast_ref::<CustomPayload>() {
                format!("custom:{}", c.0)
            } else {
                "unknown".to_string()
            };
            E::Panic { model, payload: p }
        }
        ExecutionError::Timeout => E::Timeout,
        ExecutionError::OutOfSync(d) => E::OutOfSync(if d == Duration::MAX { u64::MAX } else { d.as_nanos().min(u64::MAX as u128 - 1) as u64 }),
        ExecutionError::BadQuery => E::BadQuery,
        ExecutionError::InvalidDeadline(t) => E::InvalidDeadline(off(t)),
    }
}

fn connect_out(out: &mut Output<Msg>, conns: &[Conn], addrs: &[Address<Node>], bufs: &[EventBuffer<Msg>], slots: &[EventSlot<Msg>], fl: &[Flavour]) {
    for c in conns {
        match *c {
            Conn::To { node, mode } => match mode {
                Mode::Plain => with_input!(fl[node], f => out.connect(f, &addrs[node])),
                Mode::Map(_) => out.map_connect(
                    move |m: &Msg| {
                        let mut m = m.clone();
                        m.val = mode.apply(m.val).unwrap();
                        m
                    },
                    Node::on_event,
                    &addrs[node],
                ),
                Mode::Filter(_) | Mode::FilterGe(_) => out.filter_map_connect(
                    move |m: &Msg| {
                        mode.apply(m.val).map(|v| {
                            let mut m = m.clone();
                            m.val = v;
                            m
                        })
                    },
                    Node::on_event,
                    &addrs[node],
                ),
            },
            Conn::Buf { sink, mode } => match mode {
                Mode::Plain => out.connect_sink(&bufs[sink]),
                Mode::Map(_) => out.map_connect_sink(
                    move |m: &Msg| {
                        let mut m = m.clone();
                        m.val = mode.apply(m.val).unwrap();
                        m
                    },
                    &bufs[sink],
                ),
                Mode::Filter(_) | Mode::FilterGe(_) => out.filter_map_connect_sink(
                    move |m: &Msg| {
                        mode.apply(m.val).map(|v| {
                            let mut m = m.clone();
                            m.val = v;
                            m
                        })
                    },
                    &bufs[sink],
                ),
            },
            Conn::Slot { sink, mode } => match mode {
                Mode::Plain => out.connect_sink(&slots[sink]),
                Mode::Map(_) => out.map_connect_sink(
                    move |m: &Msg| {
                        let mut m = m.clone();
                        m.val = mode.apply(m.val).unwrap();
                        m
                    },
                    &slots[sink],
                ),
                Mode::Filter(_) | Mode::FilterGe(_) => out.filter_map_connect_sink(
                    move |m: &Msg| {
                        mode.apply(m.val).map(|v| {
                            let mut m = m.clone();
                            m.val = v;
                            m
                        })
                    },
                    &slots[sink],
                ),
            },
        }
    }
}

fn connect_req(req: &mut Requestor<Msg, Reply>, conns: &[Conn], addrs: &[Address<Node>], fl: &[Flavour]) {
    for c in conns {
        if let Conn::To { node, mode } = *c {
            match mode {
                Mode::Plain => with_replier!(fl[node], f => req.connect(f, &addrs[node])),
                Mode::Map(_) => req.map_connect(
                    move |m: &Msg| {
                        let mut m = m.clone();
                        m.val = mode.apply(m.val).unwrap();
                        m
                    },
                    |mut r: Reply| {
                        r.val += 1000;
                        r
                    },
                    Node::on_query,
                    &addrs[node],
                ),
                Mode::Filter(_) | Mode::FilterGe(_) => req.filter_map_connect(
                    move |m: &Msg| {
                        mode.apply(m.val).map(|v| {
                            let mut m = m.clone();
                            m.val = v;
                            m
                        })
                    },
                    |mut r: Reply| {
                        r.val += 2000;
                        r
                    },
                    Node::on_query,
                    &addrs[node],
                ),
            }
        } else {
            panic!("requestor ports connect to nodes only");
        }
    }
}

/// Expected replies of a query with value `v` through connections `conns`.
pub fn expected_replies(conns: &[Conn], v: i64) -> Vec<(usize, i64)> {
    let mut out = vec![];
    for c in conns {
        if let Conn::To { node, mode } = *c {
            if let Some(mv) = mode.apply(v) {
                let r = reply_val(node, mv);
                let r = match mode {
                    Mode::Plain => r,
                    Mode::Map(_) => r + 1000,
                    Mode::Filter(_) | Mode::FilterGe(_) => r + 2000,
                };
                out.push((node, r));
            }
        }
    }
    out
}

fn connect_src(src: &mut EventSource<Msg>, conns: &[Conn], addrs: &[Address<Node>], fl: &[Flavour], w: &Arc<W>) {
    for c in conns {
        if let Conn::To { node, mode } = *c {
            match mode {
                Mode::Plain => with_input!(fl[node], f => src.connect(f, &addrs[node])),
                Mode::Map(_) => src.map_connect(
                    {
                    let w = w.clone();
                    move |m: &Msg| {
                        w.log(Ev::MapEval { id: m.id });
                        let mut m = m.clone();
                        m.val = mode.apply(m.val).unwrap();
                        m
                    }},
                    Node::on_event,
                    &addrs[node],
                ),
                Mode::Filter(_) | Mode::FilterGe(_) => src.filter_map_connect(
                    {
                    let w = w.clone();
                    move |m: &Msg| {
                        w.log(Ev::MapEval { id: m.id });
                        mode.apply(m.val).map(|v| {
                            let mut m = m.clone();
                            m.val = v;
                            m
                        })
                    }},
                    Node::on_event,
                    &addrs[node],
                ),
            }
        } else {
            panic!("event sources connect to nodes only");
        }
    }
}

fn connect_qsrc(src: &mut QuerySource<Msg, Reply>, conns: &[Conn], addrs: &[Address<Node>], fl: &[Flavour]) {
    for c in conns {
        if let Conn::To { node, mode } = *c {
            match mode {
                Mode::Plain => with_replier!(fl[node], f => src.connect(f, &addrs[node])),
                Mode::Map(_) => src.map_connect(
                    move |m: &Msg| {
                        let mut m = m.clone();
                        m.val = mode.apply(m.val).unwrap();
                        m
                    },
                    |mut r: Reply| {
                        r.val += 1000;
                        r
                    },
                    Node::on_query,
                    &addrs[node],
                ),
                Mode::Filter(_) | Mode::FilterGe(_) => src.filter_map_connect(
                    move |m: &Msg| {
                        mode.apply(m.val).map(|v| {
                            let mut m = m.clone();
                            m.val = v;
                            m
                        })
                    },
                    |mut r: Reply| {
                        r.val += 2000;
                        r
                    },
                    Node::on_query,
                    &addrs[node],
                ),
            }
        } else {
            panic!("query sources connect to nodes only");
        }
    }
}

pub fn install_hooks(w: &Arc<W>) {
    let w2 = w.clone();
    nexosim::verif::set_pre_pick(Some(Box::new(move || {
        for wk in w2.take_parked() {
            wk.wake();
        }
    })));
    nexosim::verif::set_picker(Some(Box::new(|ids: &[usize]| explore::choose(ids.len()))));
}

pub fn remove_hooks() {
    nexosim::verif::set_pre_pick(None);
    nexosim::verif::set_picker(None);
}

/// Builds the bench and runs `SimInit::init` (logged as command 0).
pub fn build(spec: &Arc<BenchSpec>, w: &Arc<W>) -> Built {
    let n = spec.nodes.len();
    let mut mailboxes: Vec<Option<Mailbox<Node>>> = spec
        .nodes
        .iter()
        .map(|s| Some(Mailbox::with_capacity(s.cap)))
        .collect();
    let addrs: Arc<Vec<Address<Node>>> =
        Arc::new(mailboxes.iter().map(|m| m.as_ref().unwrap().address()).collect());
    let bufs: Vec<EventBuffer<Msg>> = spec
        .bufs
        .iter()
        .map(|c| EventBuffer::with_capacity(*c))
        .collect();
    let slots: Vec<EventSlot<Msg>> = (0..spec.slots).map(|_| EventSlot::new()).collect();

    let fl: Vec<Flavour> = spec.nodes.iter().map(|n| n.flavour).collect();
    // Ports.
    let mut outs_all: Vec<Vec<Output<Msg>>> = Vec::new();
    for s in spec.nodes.iter() {
        let mut outs = vec![];
        for conns in &s.outs {
            let mut o = Output::new();
            connect_out(&mut o, conns, &addrs, &bufs, &slots, &fl);
            outs.push(o);
        }
        outs_all.push(outs);
    }
    // Shared (cloned) output ports.
    for i in 0..n {
        if let Some((src_node, src_port)) = spec.nodes[i].share_out {
            let mut o = outs_all[src_node][src_port].clone();
            connect_out(&mut o, &spec.nodes[i].share_conns, &addrs, &bufs, &slots, &fl);
            outs_all[i].push(o);
        }
    }
    let out_clones: Vec<Vec<Output<Msg>>> = if spec.hold_port_clones { outs_all.iter().map(|v| v.iter().map(|o| o.clone()).collect()).collect() } else { vec![] };
    let mut nodes: Vec<Option<Node>> = Vec::new();
    for (i, s) in spec.nodes.iter().enumerate() {
        let mut reqs = vec![];
        for conns in &s.reqs {
            let mut r = Requestor::new();
            connect_req(&mut r, conns, &addrs, &fl);
            reqs.push(r);
        }
        let mut unis = vec![];
        for c in &s.unis {
            if let Conn::To { node, mode } = *c {
                let a = &addrs[node];
                unis.push(match mode {
                    Mode::Plain => with_replier!(fl[node], f => UniRequestor::new(f, a)),
                    Mode::Map(_) => UniRequestor::with_map(
                        move |m: &Msg| {
                            let mut m = m.clone();
                            m.val = mode.apply(m.val).unwrap();
                            m
                        },
                        |mut r: Reply| {
                            r.val += 1000;
                            r
                        },
                        Node::on_query,
                        a,
                    ),
                    Mode::Filter(_) | Mode::FilterGe(_) => UniRequestor::with_filter_map(
                        move |m: &Msg| {
                            mode.apply(m.val).map(|v| {
                                let mut m = m.clone();
                                m.val = v;
                                m
                            })
                        },
                        |mut r: Reply| {
                            r.val += 2000;
                            r
                        },
                        Node::on_query,
                        a,
                    ),
                });
            } else {
                panic!("uni requestors connect to nodes only");
            }
        }
        nodes.push(Some(Node {
            idx: i,
            w: w.clone(),
            spec: spec.clone(),
            outs: std::mem::take(&mut outs_all[i]),
            reqs,
            unis,
            addrs: addrs.clone(),
            _guard: ModelGuard {
                w: w.clone(),
                node: i,
                _tok: Tracked::new(w),
            },
        }));
    }
    let mut srcs = vec![];
    for conns in &spec.srcs {
        let mut s = EventSource::new();
        connect_src(&mut s, conns, &addrs, &fl, w);
        srcs.push(s);
    }
    let mut qsrcs = vec![];
    for conns in &spec.qsrcs {
        let mut s = QuerySource::new();
        connect_qsrc(&mut s, conns, &addrs, &fl);
        qsrcs.push(s);
    }

    // Assemble the hierarchy bottom-up.
    fn assemble(
        i: usize,
        spec: &BenchSpec,
        nodes: &mut Vec<Option<Node>>,
        mailboxes: &mut Vec<Option<Mailbox<Node>>>,
    ) -> ProtoNode {
        let node = nodes[i].take().unwrap();
        let mut children = vec![];
        for j in 0..spec.nodes.len() {
            if spec.nodes[j].parent == Some(i) && spec.nodes[j].placement == Placement::Added {
                let child = assemble(j, spec, nodes, mailboxes);
                let mb = mailboxes[j].take().unwrap();
                children.push((child, mb, spec.nodes[j].name.clone()));
            }
        }
        ProtoNode { node, children }
    }

    let mut orphans = vec![];
    let mut sim_init = SimInit::with_num_threads(spec.threads);
    for i in 0..n {
        let s = &spec.nodes[i];
        if s.parent.is_some() {
            continue;
        }
        match s.placement {
            Placement::Added => {
                let proto = assemble(i, spec, &mut nodes, &mut mailboxes);
                let mb = mailboxes[i].take().unwrap();
                sim_init = sim_init.add_model(proto, mb, s.name.clone());
            }
            Placement::Orphan | Placement::Dropped => {}
        }
    }
    for i in 0..n {
        match spec.nodes[i].placement {
            Placement::Orphan => {
                if let Some(mb) = mailboxes[i].take() {
                    orphans.push(mb);
                }
            }
            Placement::Dropped => {
                mailboxes[i].take();
            }
            Placement::Added => {}
        }
    }
    // Anything left (children of non-added parents) is dropped.
    drop(mailboxes);
    drop(nodes);

    let clock_handle: Arc<Mutex<Option<(Scheduler, Arc<Vec<Address<Node>>>)>>> = Arc::new(Mutex::new(None));
    if spec.tolerance_first {
        if let Some(t) = spec.tolerance_ns {
            sim_init = sim_init.set_clock_tolerance(Duration::from_nanos(t));
        }
    }
    sim_init = sim_init.set_clock(RecClock {
        w: w.clone(),
        answers: spec.clock.answers.clone(),
        schedules: spec.clock.schedules.clone(),
        handle: clock_handle.clone(),
        k: 0,
    });
    if !spec.tolerance_first {
        if let Some(t) = spec.tolerance_ns {
            sim_init = sim_init.set_clock_tolerance(Duration::from_nanos(t));
        }
    }
    if spec.timeout_ms != 0 && !spec.timeout_after_init {
        sim_init = sim_init.set_timeout(Duration::from_millis(spec.timeout_ms));
    }
    w.log(Ev::Cmd(0));
    let r = panic::catch_unwind(AssertUnwindSafe(|| sim_init.init(mt(0))));
    let (simu, sched, res) = match r {
        Ok(Ok((mut simu, sched))) => {
            if spec.timeout_ms != 0 && spec.timeout_after_init {
                simu.set_timeout(Duration::from_millis(spec.timeout_ms));
            }
            *clock_handle.lock().unwrap() = Some((sched.clone(), addrs.clone()));
            if fl.iter().any(|f| matches!(f, Flavour::SyncPlain | Flavour::AsyncPlain)) {
                w.set_sched(Some(sched.clone()));
            }
            let t = off(simu.time());
            w.log(Ev::Ret(0, Res::Ok, t));
            (Some(simu), Some(sched), Res::Ok)
        }
        Ok(Err(e)) => {
            let e = conv_err(e);
            w.log(Ev::Ret(0, Res::Err(e.clone()), 0));
            (None, None, Res::Err(e))
        }
        Err(p) => {
            let s = panic_msg(&p);
            w.log(Ev::Ret(0, Res::Panicked(s.clone()), 0));
            (None, None, Res::Panicked(s))
        }
    };
    Built {
        w: w.clone(),
        simu,
        sched,
        addrs,
        bufs,
        slots,
        srcs,
        qsrcs,
        orphans,
        init_res: res,
        flavours: spec.nodes.iter().map(|n| n.flavour).collect(),
        out_clones,
        threads: spec.threads,
        rxs: vec![],
    }
}

pub fn panic_msg(p: &Box<dyn std::any::Any + Send>) -> String {
    if let Some(s) = p.downcast_ref::<&str>() {
        s.to_string()
    } else if let Some(s) = p.downcast_ref::<String>() {
        s.clone()
    } else {
        "<non-string panic>".to_string()
    }
}

// ---------------------------------------------------------------------------
// Driver commands
// ---------------------------------------------------------------------------

#[derive(Clone, Debug, PartialEq, Eq, PartialOrd, Ord, Hash)]
pub enum Cmd {
    Step,
    StepUntil(When),
    ProcEvent { node: usize, tag: u16, val: i64 },
    ProcQuery { node: usize, tag: u16, val: i64 },
    /// Scheduler::schedule_*event on a node input.
    Sched { node: usize, kind: SKind, when: When, tag: u16, val: i64, slot: usize },
    /// Scheduler::schedule(deadline, source action).
    SchedSrc { src: usize, kind: SKind, when: When, tag: u16, val: i64, slot: usize },
    /// Simulation::process(source.event(..)).
    ProcSrc { src: usize, tag: u16, val: i64 },
    /// Simulation::process(qsource.query(..)), then take the replies.
    ProcQSrc { src: usize, tag: u16, val: i64 },
    /// Like `ProcQSrc`, but the reply receiver is dropped without being read.
    ProcQSrcDrop { src: usize, tag: u16, val: i64 },
    /// Schedules a query action of a query source; the reply receiver is dropped at
    /// once (`keep == false`) or kept unread until the end of the scenario.
    SchedQSrc { src: usize, when: When, tag: u16, val: i64, keep: bool },
    Cancel { slot: usize },
    CancelClone { slot: usize },
    /// Convert the key in `slot` into an AutoActionKey (kept alive).
    IntoAuto { slot: usize },
    /// Drop the auto key of `slot`.
    DropAuto { slot: usize },
    /// Keep a clone of the key of `slot` alive in slot `to`.
    KeepClone { slot: usize, to: usize },
    /// Adds a connection to output port `port` of `node` through a clone of the port kept
    /// by the driver since before `init` (needs `BenchSpec::hold_port_clones`).
    ConnectVia { node: usize, port: usize, conn: Conn },
    /// Adds a connection to an event source held by the driver (possibly after actions of that
    /// source were created or scheduled).
    ConnectSrc { src: usize, conn: Conn },
    /// Builds, runs and drops a separate bench whose ports carry `()` and whose methods take no
    /// argument; any difference from the expected figures is reported as a panic of this command.
    UnitBench { rounds: u32 },
    DropSim,
}

impl Cmd {
    pub fn is_run(&self) -> bool {
        matches!(
            self,
            Cmd::Step
                | Cmd::StepUntil(_)
                | Cmd::ProcEvent { .. }
                | Cmd::ProcQuery { .. }
                | Cmd::ProcSrc { .. }
                | Cmd::ProcQSrc { .. }
                | Cmd::ProcQSrcDrop { .. }
        )
    }
}

fn to_res(r: Result<(), ExecutionError>) -> Res {
    match r {
        Ok(()) => Res::Ok,
        Err(e) => Res::Err(conv_err(e)),
    }
}

pub fn exec_cmd(b: &mut Built, idx: usize, cmd: &Cmd) -> Res {
    let w = b.w.clone();
    w.log(Ev::Cmd(idx));
    let r = panic::catch_unwind(AssertUnwindSafe(|| exec_cmd_inner(b, cmd)));
    let res = match r {
        Ok(r) => r,
        Err(p) => Res::Panicked(panic_msg(&p)),
    };
    let t = b.simu.as_ref().map(|s| off(s.time())).unwrap_or(i64::MIN);
    w.log(Ev::Ret(idx, res.clone(), t));
    res
}

fn exec_cmd_inner(b: &mut Built, cmd: &Cmd) -> Res {
    let w = b.w.clone();
    if let Cmd::DropSim = cmd {
        w.log(Ev::DropStart);
        b.simu.take();
        w.log(Ev::DropEnd);
        return Res::Ok;
    }
    match cmd {
        Cmd::Cancel { slot } => {
            if let Some((k, id)) = w.take_key(*slot) {
                k.cancel();
                w.log(Ev::Cancel { by: None, id });
                return Res::Ok;
            }
            return Res::Skipped;
        }
        Cmd::CancelClone { slot } => {
            if let Some((k, id)) = w.clone_key(*slot) {
                k.cancel();
                w.log(Ev::Cancel { by: None, id });
                return Res::Ok;
            }
            return Res::Skipped;
        }
        Cmd::ConnectVia { node, port, conn } => {
            let fl = b.flavours.clone();
            connect_out(&mut b.out_clones[*node][*port], &[*conn], &b.addrs, &b.bufs, &b.slots, &fl);
            w.log(Ev::ConnectVia { node: *node, port: *port, conn: *conn });
            return Res::Ok;
        }
        Cmd::UnitBench { rounds } => {
            run_unit_bench(&w, b.threads, *rounds);
            return Res::Ok;
        }
        Cmd::ConnectSrc { src, conn } => {
            let fl = b.flavours.clone();
            connect_src(&mut b.srcs[*src], &[*conn], &b.addrs, &fl, &w);
            w.log(Ev::ConnectSrc { src: *src, conn: *conn });
            return Res::Ok;
        }
        Cmd::IntoAuto { slot } => {
            if let Some((k, id)) = w.take_key(*slot) {
                // Replacing an auto key drops (hence cancels) the previous one.
                if let Some((old, old_id)) = w.take_auto_key(*slot) {
                    drop(old);
                    w.log(Ev::Cancel { by: None, id: old_id });
                }
                w.store_auto_key(*slot, k.into_auto(), id);
                return Res::Ok;
            }
            return Res::Skipped;
        }
        Cmd::KeepClone { slot, to } => {
            if let Some((k, id)) = w.clone_key(*slot) {
                w.store_key(*to, k, id);
                return Res::Ok;
            }
            return Res::Skipped;
        }
        Cmd::DropAuto { slot } => {
            if let Some((k, id)) = w.take_auto_key(*slot) {
                drop(k);
                w.log(Ev::Cancel { by: None, id });
                return Res::Ok;
            }
            return Res::Skipped;
        }
        _ => {}
    }
    let Some(simu) = b.simu.as_mut() else {
        return Res::Skipped;
    };
    let sched = b.sched.as_ref().unwrap();
    match cmd {
        Cmd::Step => to_res(simu.step()),
        Cmd::StepUntil(when) => match *when {
            When::Rel(d) => to_res(simu.step_until(Duration::from_nanos(d))),
            When::Abs(a) => to_res(simu.step_until(mt(a))),
        },
        Cmd::ProcEvent { node, tag, val } => {
            let id = w.fresh_id();
            w.log(Ev::SendS { node: usize::MAX, port: *node, id, val: *val });
            let flavour = b.flavours[*node];
            with_input!(flavour, f => to_res(simu.process_event(f, Msg::new(&w, id, *tag, *val), &b.addrs[*node])))
        }
        Cmd::ProcQuery { node, tag, val } => {
            let id = w.fresh_id();
            w.log(Ev::QryS { node: usize::MAX, port: *node, id, val: *val });
            let flavour = b.flavours[*node];
            match with_replier!(flavour, f => simu.process_query(f, Msg::new(&w, id, *tag, *val), &b.addrs[*node])) {
                Ok(r) => {
                    Res::Replies(vec![(r.from, if r.id == id { r.val } else { i64::MIN + r.id as i64 })])
                }
                Err(e) => Res::Err(conv_err(e)),
            }
        }
        Cmd::Sched { node, kind, when, tag, val, slot } => {
            let id = w.fresh_id();
            let now = off(sched.time());
            let at = deadline_of(*when, now);
            let msg = Msg::new(&w, id, *tag, *val);
            let addr = &b.addrs[*node];
            let flavour = b.flavours[*node];
            macro_rules! go {
                ($dl:expr) => {
                    with_input!(flavour, f => match *kind {
                        SKind::Once => sched.schedule_event($dl, f, msg, addr).map_err(se),
                        SKind::Keyed => sched
                            .schedule_keyed_event($dl, f, msg, addr)
                            .map(|k| w.store_key(*slot, k, id))
                            .map_err(se),
                        SKind::Periodic(p) => sched
                            .schedule_periodic_event($dl, Duration::from_nanos(p), f, msg, addr)
                            .map_err(se),
                        SKind::KeyedPeriodic(p) => sched
                            .schedule_keyed_periodic_event($dl, Duration::from_nanos(p), f, msg, addr)
                            .map(|k| w.store_key(*slot, k, id))
                            .map_err(se),
                    })
                };
            }
            let res = match *when {
                When::Rel(d) => go!(Duration::from_nanos(d)),
                When::Abs(a) => go!(mt(a)),
            };
            w.log(Ev::Sched {
                by: None,
                id,
                kind: *kind,
                at,
                now,
                target: Target::Node(*node),
                tag: *tag,
                val: *val,
                res,
            });
            match res {
                Ok(()) => Res::SchedOk,
                Err(e) => Res::SchedErr(e),
            }
        }
        Cmd::SchedSrc { src, kind, when, tag, val, slot } => {
            let id = w.fresh_id();
            let now = off(sched.time());
            let at = deadline_of(*when, now);
            let msg = Msg::new(&w, id, *tag, *val);
            let s = &mut b.srcs[*src];
            let (action, key) = match *kind {
                SKind::Once => (s.event(msg), None),
                SKind::Keyed => {
                    let (a, k) = s.keyed_event(msg);
                    (a, Some(k))
                }
                SKind::Periodic(p) => (s.periodic_event(Duration::from_nanos(p), msg), None),
                SKind::KeyedPeriodic(p) => {
                    let (a, k) = s.keyed_periodic_event(Duration::from_nanos(p), msg);
                    (a, Some(k))
                }
            };
            let res = match *when {
                When::Rel(d) => sched.schedule(Duration::from_nanos(d), action),
                When::Abs(a) => sched.schedule(mt(a), action),
            }
            .map_err(se);
            if let (Ok(()), Some(k)) = (&res, key) {
                w.store_key(*slot, k, id);
            }
            w.log(Ev::Sched {
                by: None,
                id,
                kind: *kind,
                at,
                now,
                target: Target::Src(*src),
                tag: *tag,
                val: *val,
                res,
            });
            match res {
                Ok(()) => Res::SchedOk,
                Err(e) => Res::SchedErr(e),
            }
        }
        Cmd::ProcSrc { src, tag, val } => {
            let id = w.fresh_id();
            w.log(Ev::SendS { node: usize::MAX - 1, port: *src, id, val: *val });
            let action = b.srcs[*src].event(Msg::new(&w, id, *tag, *val));
            to_res(simu.process(action))
        }
        Cmd::ProcQSrc { src, tag, val } => {
            let id = w.fresh_id();
            w.log(Ev::QryS { node: usize::MAX - 1, port: *src, id, val: *val });
            let (action, mut rx) = b.qsrcs[*src].query(Msg::new(&w, id, *tag, *val));
            match simu.process(action) {
                Ok(()) => match rx.take() {
                    Some(it) => Res::Replies(
                        it.map(|r| (r.from, if r.id == id { r.val } else { i64::MIN + r.id as i64 }))
                        .collect(),
                    ),
                    None => Res::Err(E::BadQuery),
                },
                Err(e) => Res::Err(conv_err(e)),
            }
        }
        Cmd::ProcQSrcDrop { src, tag, val } => {
            let id = w.fresh_id();
            let (action, rx) = b.qsrcs[*src].query(Msg::new(&w, id, *tag, *val));
            let r = simu.process(action);
            drop(rx);
            to_res(r)
        }
        Cmd::SchedQSrc { src, when, tag, val, keep } => {
            let id = w.fresh_id();
            let (action, rx) = b.qsrcs[*src].query(Msg::new(&w, id, *tag, *val));
            let res = match *when {
                When::Rel(d) => sched.schedule(Duration::from_nanos(d), action),
                When::Abs(a) => sched.schedule(mt(a), action),
            }
            .map_err(se);
            if *keep {
                b.rxs.push(rx);
            } else {
                drop(rx);
            }
            match res {
                Ok(()) => Res::SchedOk,
                Err(e) => Res::SchedErr(e),
            }
        }
        _ => unreachable!(),
    }
}

// ---------------------------------------------------------------------------
// One execution
// ---------------------------------------------------------------------------

#[derive(Clone)]
pub struct Scenario {
    pub spec: Arc<BenchSpec>,
    pub cmds: Vec<Cmd>,
    pub label: String,
    /// Another simulation that is run to completion (default schedule) and
    /// dropped on the same thread before this one is built: simulations must
    /// not interfere through state left on the thread.
    pub prelude: Option<Arc<Scenario>>,
}

pub struct RunOut {
    pub log: Vec<Ev>,
    pub results: Vec<Res>,
    /// Contents drained from buffers at the end: (id, val) in order.
    pub bufs: Vec<Vec<(u32, i64)>>,
    pub slots: Vec<Option<(u32, i64)>>,
    /// Tracked values still alive after everything was dropped.
    pub leaked: usize,
    pub double_drops: u64,
    pub chooser: explore::Chooser,
}

/// Runs one scenario under one choice vector on the current thread.
pub fn run_once(sc: &Scenario, prefix: &[u16], controlled: bool) -> RunOut {
    if let Some(pre) = &sc.prelude {
        let _ = run_once(pre, &[], controlled);
    }
    let w = W::new(controlled);
    explore::install(prefix.to_vec());
    if controlled {
        install_hooks(&w);
    }
    let mut b = build(&sc.spec, &w);
    let mut results = vec![b.init_res.clone()];
    for (i, c) in sc.cmds.iter().enumerate() {
        let r = exec_cmd(&mut b, i + 1, c);
        results.push(r);
    }
    let bufs: Vec<Vec<(u32, i64)>> = b
        .bufs
        .iter_mut()
        .map(|bf| bf.map(|m| (m.id, m.val)).collect())
        .collect();
    let slots: Vec<Option<(u32, i64)>> = b
        .slots
        .iter_mut()
        .map(|s| s.next().map(|m| (m.id, m.val)))
        .collect();
    // Tear everything down.
    if b.simu.is_some() {
        w.log(Ev::DropStart);
        let r = panic::catch_unwind(AssertUnwindSafe(|| {
            b.simu.take();
        }));
        if r.is_err() {
            w.log(Ev::Note("panic while dropping the simulation".into()));
        }
        w.log(Ev::DropEnd);
    }
    let chooser = explore::take();
    if controlled {
        remove_hooks();
    }
    drop(w.take_parked());
    w.clear_keys();
    w.set_sched(None);
    let Built { sched, addrs, bufs: bb, slots: ss, srcs, qsrcs, orphans, out_clones, rxs, .. } = b;
    drop(rxs);
    drop(out_clones);
    drop(sched);
    drop(srcs);
    drop(qsrcs);
    drop(orphans);
    drop(bb);
    drop(ss);
    drop(addrs);
    drop(w.take_parked());
    let leaked = w.live_tokens();
    let double_drops = w.double_drops();
    RunOut {
        log: w.take_log(),
        results,
        bufs,
        slots,
        leaked,
        double_drops,
        chooser,
    }
}

pub fn close_sinks(_b: &mut Built) {}

#[allow(dead_code)]
pub fn sink_open_close(b: &mut Built, sink: usize, open: bool) {
    if open {
        b.bufs[sink].open()
    } else {
        b.bufs[sink].close()
    }
}
